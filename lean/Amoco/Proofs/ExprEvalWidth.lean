/-
  Amoco.Proofs.ExprEvalWidth — `eval` returns well-formed results of the width of its argument (for
  concrete, partial and symbolic environments), and the executable `compWF` checker is sound for `Tiles`.
-/
import Amoco.Proofs.ExprWidth

namespace Amoco

open Expr

/-- an environment binds registers to well-formed expressions of the register's width -/
def EnvOK (env : Env) : Prop := ∀ n s v, env.lookup n s = some v → WF v ∧ v.size = s

variable (cfg : Cfg)

theorem eval_width (env : Env) (henv : EnvOK env) :
    ∀ (fuel : Nat) (e : Expr), WF e → Post e.size (eval cfg fuel env e) := by
  intro fuel
  induction fuel with
  | zero => intro e _; rw [eval.eq_def]; exact Post_error _ _
  | succ fuel ih =>
    have W := widthIH_all cfg fuel
    intro e he
    rw [eval.eq_def]; dsimp only
    cases e with
    | cst v s f => exact Post_ok (WF_mkCst _ _ he.1) rfl
    | reg n s f =>
      dsimp only
      split
      · rename_i v hv
        have := henv n s v hv
        exact Post_ok ((WF_setSf _ _).mpr this.1) (by rw [size_setSf]; exact this.2)
      · exact Post_ok he rfl
    | ext n s f =>
      dsimp only
      split
      · rename_i v hv
        have := henv _ s v hv
        exact Post_ok ((WF_setSf _ _).mpr this.1) (by rw [size_setSf]; exact this.2)
      · exact Post_ok he rfl
    | slc x pos size sf ref ety =>
      dsimp only
      simp only [WF] at he
      apply Post_bind; intro n hn
      obtain ⟨hnw, hns⟩ := ih x he.1 n hn
      apply Post_bind; intro res hres
      have := W.getitem n _ _ hnw res hres
      exact Post_pure ((WF_setSf _ _).mpr this.1) (by rw [size_setSf, this.2]; simp only [size_slc]; omega)
    | comp size sf parts =>
      dsimp only
      simp only [WF] at he
      obtain ⟨hpos, ht, hwp⟩ := he
      apply Post_bind; intro parts' hp'
      obtain ⟨h1, h2, h3⟩ := mapM_parts_spec (eval cfg fuel env)
        (fun e r he h => ih e he r h) parts parts' ((WFParts_iff _).mp hwp) hp'
      have hd' : Disj size parts' := by
        refine ⟨h2 size ht.1, fun b => ?_⟩
        show cnt b parts' ≤ 1
        rw [h3 b]; exact ht.disj.cnt_le b
      obtain ⟨r1, r2, r3⟩ := restruct_spec size parts' hd' h1
      have htr : Tiles size (restruct parts') :=
        tiles_of_disj_cnt r1 (fun x hx => by rw [r3 x, h3 x]; exact ht.2 x hx)
      split
      · rename_i v s f hf
        have hw := r2 _ (findKey_some_mem hf)
        have hs := htr.whole_key hf
        exact Post_pure (by simp only [WF] at hw ⊢; exact hw) (by simpa using hs)
      · rename_i p _ hf
        exact Post_pure (r2 _ (findKey_some_mem hf)) (htr.whole_key hf)
      · exact Post_pure (by simp only [WF]; exact ⟨hpos, htr, (WFParts_iff _).mpr r2⟩) rfl
    | tst t l r size sf =>
      dsimp only
      simp only [WF] at he
      obtain ⟨hpos, ht, hl, hr, ht1, hls, hrs⟩ := he
      apply Post_bind; intro c hc
      obtain ⟨hcw, hcs⟩ := ih t ht c hc
      apply Post_bind; intro l' hl'
      obtain ⟨hlw, hls'⟩ := ih l hl l' hl'
      apply Post_bind; intro r' hr'
      obtain ⟨hrw, hrs'⟩ := ih r hr r' hr'
      simp only [size_tst]
      split
      · split
        · exact Post_pure hlw (by omega)
        · exact Post_pure hrw (by omega)
      · intro e h
        unfold mkTst at h
        split at h
        · cases h
        · cases h
          exact ⟨by simp only [WF]; exact ⟨by omega, hcw, hlw, hrw, by omega, trivial, by omega⟩, by simp only [size_tst]; omega⟩
    | op o l r size sf prop =>
      dsimp only
      obtain ⟨hpos, hp, hl, hr, hs, heq⟩ := (WF_op_iff _ _ _ _ _ _).mp he
      apply Post_bind; intro l' hl'
      obtain ⟨hlw, hls⟩ := ih l hl l' hl'
      apply Post_bind; intro r' hr'
      obtain ⟨hrw, hrs⟩ := ih r hr r' hr'
      apply Post_bind; intro res hres
      have := W.callOp o l' r' hlw hrw (by intro h; rw [hls, hrs]; exact heq (by omega)) res hres
      exact Post_pure ((WF_setSf _ _).mpr this.1) (by rw [size_setSf, this.2, resSize_congr o hls]; exact hs.symm)
    | uop o r size sf prop =>
      dsimp only
      simp only [WF] at he
      apply Post_bind; intro r' hr'
      obtain ⟨hrw, hrs⟩ := ih r he.2.1 r' hr'
      apply Post_bind; intro res hres
      have := W.callUop o r' hrw res hres
      exact Post_pure ((WF_setSf _ _).mpr this.1) (by rw [size_setSf, this.2, hrs]; simp only [size_uop]; omega)
    | top s f => exact Post_ok (WF_mkTop he) rfl
    | vec l s f =>
      dsimp only
      simp only [WF] at he
      apply Post_bind; intro l' hl'
      have := mapM_spec (eval cfg fuel env) (fun y => WF y ∧ y.size = s) (fun y => WF y ∧ y.size = s)
        (by intro y r hy h; have := ih y hy.1 r h; exact ⟨this.1, by rw [this.2]; exact hy.2⟩) l l' ((WFList_iff l s).mp he.2.2) hl'
      intro v hv
      exact mkVec_spec l' s v he.1 (by intro h; have h2 := this.2; rw [h] at h2; exact he.2.1 (List.length_eq_zero_iff.mp h2.symm)) this.1 hv
    | vecw l s f =>
      dsimp only
      simp only [WF] at he
      apply Post_bind; intro l' hl'
      have := mapM_spec (eval cfg fuel env) (fun y => WF y ∧ y.size = s) (fun y => WF y ∧ y.size = s)
        (by intro y r hy h; have := ih y hy.1 r h; exact ⟨this.1, by rw [this.2]; exact hy.2⟩) l l' ((WFList_iff l s).mp he.2.2) hl'
      apply Post_bind; intro v hv
      have hvs := mkVec_spec l' s v he.1 (by intro h; have h2 := this.2; rw [h] at h2; exact he.2.1 (List.length_eq_zero_iff.mp h2.symm)) this.1 hv
      split
      · rename_i l'' s'' f''
        have hw := hvs.1
        simp only [WF] at hw
        exact Post_pure (by simp only [WF]; exact hw) (by simpa using hvs.2)
      · exact Post_error _ _
    | mem a s f en ms => exact Post_error _ _
    | ptr b sg d s f => exact Post_error _ _

/-! ### soundness of the executable `CompWF` checker (K-tie) -/

namespace Expr

theorem partsTile_spec : ∀ (l : List Part) (pos n : Nat), partsTile pos l = some n →
    pos ≤ n ∧ (∀ p ∈ l, pos ≤ p.1 ∧ p.1 < p.2.1 ∧ p.2.1 ≤ n ∧ p.2.2.size = p.2.1 - p.1) ∧
      ∀ b, cnt b l = if pos ≤ b ∧ b < n then 1 else 0 := by
  intro l
  induction l with
  | nil =>
    intro pos n h
    simp only [partsTile] at h
    cases h
    exact ⟨Nat.le_refl _, (by intro p hp; cases hp), (by intro b; simp [cnt])⟩
  | cons q tl ih =>
    obtain ⟨lo, hi, e⟩ := q
    intro pos n h
    simp only [partsTile] at h
    split at h
    · rename_i hc
      obtain ⟨rfl, hlt, hsz⟩ := hc
      obtain ⟨h1, h2, h3⟩ := ih hi n h
      refine ⟨by omega, ?_, ?_⟩
      · intro p hp
        rcases List.mem_cons.mp hp with rfl | hp
        · exact ⟨Nat.le_refl _, hlt, h1, hsz⟩
        · have := h2 p hp; exact ⟨by omega, this.2⟩
      · intro b
        rw [cnt_cons, h3 b]
        unfold ind
        simp only
        split_ifs <;> omega
    · cases h

theorem compWF_sound (n : Nat) (ps : List Part) (h : compWF n ps = true) : 0 < n ∧ Tiles n ps := by
  unfold compWF at h
  simp only [Bool.and_eq_true, decide_eq_true_eq, beq_iff_eq] at h
  obtain ⟨hn, ht⟩ := h
  obtain ⟨_, h2, h3⟩ := partsTile_spec _ 0 n ht
  have hperm := perm_sortParts ps
  refine ⟨hn, ?_, ?_⟩
  · intro p hp
    have := h2 p (hperm.symm.subset hp)
    exact ⟨this.2.1, this.2.2.1, this.2.2.2⟩
  · intro b hb
    have := h3 b
    rw [if_pos ⟨Nat.zero_le _, hb⟩] at this
    show cnt b ps = 1
    rw [← this]
    exact (hperm.countP_eq _).symm

end Expr
end Amoco
