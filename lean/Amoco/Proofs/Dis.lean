/-
  Helper lemmas for the decoder index (C04, C05, C11).
-/
import Amoco.Model.Dis

namespace Amoco.Dis

theorem firstHit_filter {I} (dec : SpecK → Out I) (p : SpecK → Bool) :
    ∀ (S : List SpecK), (∀ s ∈ S, p s = false → dec s = .reject) →
      firstHit dec (S.filter p) = firstHit dec S
  | [], _ => rfl
  | s :: rest, h => by
    have ih := firstHit_filter dec p rest (fun t ht => h t (List.mem_cons_of_mem _ ht))
    by_cases hp : p s = true
    · simp only [List.filter_cons, hp, ↓reduceIte, firstHit]
      split <;> simp_all
    · have hp' : p s = false := by simpa using hp
      have hr := h s (List.mem_cons_self) hp'
      simp only [List.filter_cons, hp', firstHit, hr]
      simpa using ih

theorem firstHit_eq_none_of_all_reject {I} (dec : SpecK → Out I) :
    ∀ (S : List SpecK), (∀ s ∈ S, dec s = .reject) → firstHit dec S = none
  | [], _ => rfl
  | s :: rest, h => by
    simp only [firstHit, h s List.mem_cons_self]
    exact firstHit_eq_none_of_all_reject dec rest (fun t ht => h t (List.mem_cons_of_mem _ ht))

/-- bits of the key selected by a node mask are those of any spec's fix that matches the key. -/
theorem key_and_node (b am af f : Nat) (hm : am &&& f = f) (hb : b &&& am = af) :
    af &&& f = b &&& f := by
  rw [← hb, Nat.and_assoc, hm]

mutual
/-- **routing lemma**: on a tree that passes `checkTree` for the ordered list `S`, the leaf reached
    for key `b` contains, in order, every spec of `S` that can possibly accept. -/
theorem firstHit_route {I} (be : Bool) (maxlen : Nat) (dec : SpecK → Out I) (b : Nat) :
    ∀ (t : Tree) (S : List SpecK), checkTree be maxlen t S = true →
      (∀ s ∈ S, dec s ≠ .reject → b &&& s.amask be maxlen = s.afix be maxlen) →
      firstHit dec (route t b) = firstHit dec S
  | .leaf l, S, hc, _ => by
    simp only [checkTree, beq_iff_eq] at hc
    simp [route, hc]
  | .node f cs, S, hc, hacc => by
    simp only [checkTree, Bool.and_eq_true, bne_iff_ne, ne_eq, List.all_eq_true, beq_iff_eq,
      List.contains_eq_mem, decide_eq_true_eq] at hc
    obtain ⟨⟨⟨_, hmask⟩, hkeys⟩, hch⟩ := hc
    -- all possibly-accepting specs have key `b &&& f`
    have hfilter : firstHit dec (S.filter (fun s => s.afix be maxlen &&& f == b &&& f)) = firstHit dec S := by
      apply firstHit_filter
      intro s hs hp
      by_cases hr : dec s = .reject
      · exact hr
      · exfalso
        have := key_and_node b _ _ f (hmask s hs) (hacc s hs hr)
        simp [this] at hp
    rw [route, ← hfilter]
    exact firstHit_routeChildren be maxlen dec b f cs S hch (fun s hs => Or.inl (hkeys s hs)) hacc
theorem firstHit_routeChildren {I} (be : Bool) (maxlen : Nat) (dec : SpecK → Out I) (b f : Nat) :
    ∀ (cs : List (Nat × Tree)) (S : List SpecK),
      checkTree.checkChildren be maxlen cs f S = true →
      (∀ s ∈ S, (s.afix be maxlen &&& f) ∈ cs.map Prod.fst ∨
                 (s.afix be maxlen &&& f) ≠ (b &&& f)) →
      (∀ s ∈ S, dec s ≠ .reject → b &&& s.amask be maxlen = s.afix be maxlen) →
      firstHit dec (route.routeChildren cs (b &&& f) b)
        = firstHit dec (S.filter (fun s => s.afix be maxlen &&& f == b &&& f))
  | [], S, _, hk, _ => by
    simp only [route.routeChildren, firstHit]
    symm
    apply firstHit_eq_none_of_all_reject
    intro s hs
    simp only [List.mem_filter, beq_iff_eq] at hs
    rcases hk s hs.1 with h | h
    · simp at h
    · exact absurd hs.2 h
  | (k, t) :: rest, S, hc, hk, hacc => by
    simp only [checkTree.checkChildren, Bool.and_eq_true, Bool.not_eq_true', List.contains_eq_mem,
      decide_eq_false_iff_not] at hc
    obtain ⟨⟨hnot, hct⟩, hrest⟩ := hc
    simp only [route.routeChildren]
    by_cases hkk : k = b &&& f
    · subst hkk
      simp only [beq_self_eq_true, ↓reduceIte]
      apply firstHit_route be maxlen dec b t _ hct
      intro s hs hr
      exact hacc s (List.mem_filter.mp hs).1 hr
    · have : (k == b &&& f) = false := by simpa using hkk
      simp only [this, Bool.false_eq_true, ↓reduceIte]
      apply firstHit_routeChildren be maxlen dec b f rest S hrest _ hacc
      intro s hs
      rcases hk s hs with h | h
      · simp only [List.map_cons, List.mem_cons] at h
        rcases h with h | h
        · right; rw [h]; exact hkk
        · left; exact h
      · right; exact h
end

end Amoco.Dis

namespace Amoco.Dis

/-- `call` only looks at its candidate lists through `firstHit`. -/
theorem call_congr {I} (r : Bool) (c1 c2 : List Nat → List SpecK)
    (dec : Option I → List Nat → SpecK → Out I) (xd : I → Option I)
    (h : ∀ st bytes, firstHit (dec st bytes) (c1 bytes) = firstHit (dec st bytes) (c2 bytes)) :
    ∀ fuel st bytes, call r c1 dec xd fuel st bytes = call r c2 dec xd fuel st bytes
  | 0, _, _ => rfl
  | fuel+1, st, bytes => by
    simp only [call, h st bytes]
    split <;> try rfl
    split <;> try rfl
    exact call_congr r c1 c2 dec xd h fuel _ _

/-- the pending instruction is `none` after every call of the repaired `__call__`,
    whatever the outcome (instruction, `None`, or any exception). -/
theorem call_pending_none {I} (cands : List Nat → List SpecK)
    (dec : Option I → List Nat → SpecK → Out I) (xd : I → Option I) :
    ∀ fuel st bytes, (call true cands dec xd fuel st bytes).1 = none
  | 0, _, _ => rfl
  | fuel+1, st, bytes => by
    simp only [call]
    split <;> try rfl
    split <;> try rfl
    · exact call_pending_none cands dec xd fuel _ _
    · split <;> rfl

end Amoco.Dis
