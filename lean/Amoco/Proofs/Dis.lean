/-
  Helper lemmas for the decoder index (C04, C05, C11).
-/
import Amoco.Model.Dis

namespace Amoco.Dis

theorem firstHit_filter {I} (dec : SpecK → Out I) (p : SpecK → Bool) :
    ∀ (S : List SpecK), (∀ s ∈ S, p s = false → dec s = .reject) →
      firstHit dec (S.filter p) = firstHit dec S
  | [], _ => rfl
  | s :: rest, h => by
    have ih := firstHit_filter dec p rest (fun t ht => h t (List.mem_cons_of_mem _ ht))
    by_cases hp : p s = true
    · simp only [List.filter_cons, hp, ↓reduceIte, firstHit]
      split <;> simp_all
    · have hp' : p s = false := by simpa using hp
      have hr := h s (List.mem_cons_self) hp'
      simp only [List.filter_cons, hp', firstHit, hr]
      simpa using ih

theorem firstHit_eq_none_of_all_reject {I} (dec : SpecK → Out I) :
    ∀ (S : List SpecK), (∀ s ∈ S, dec s = .reject) → firstHit dec S = none
  | [], _ => rfl
  | s :: rest, h => by
    simp only [firstHit, h s List.mem_cons_self]
    exact firstHit_eq_none_of_all_reject dec rest (fun t ht => h t (List.mem_cons_of_mem _ ht))

/-- bits of the key selected by a node mask are those of any spec's fix that matches the key. -/
theorem key_and_node (b am af f : Nat) (hm : am &&& f = f) (hb : b &&& am = af) :
    af &&& f = b &&& f := by
  rw [← hb, Nat.and_assoc, hm]

mutual
/-- **routing lemma**: on a tree that passes `checkTree` for the ordered list `S`, the leaf reached
    for key `b` contains, in order, every spec of `S` that can possibly accept. -/
theorem firstHit_route {I} (be : Bool) (maxlen : Nat) (dec : SpecK → Out I) (b : Nat) :
    ∀ (t : Tree) (S : List SpecK), checkTree be maxlen t S = true →
      (∀ s ∈ S, dec s ≠ .reject → b &&& s.amask be maxlen = s.afix be maxlen) →
      firstHit dec (route t b) = firstHit dec S
  | .leaf l, S, hc, _ => by
    simp only [checkTree, beq_iff_eq] at hc
    simp [route, hc]
  | .node f cs, S, hc, hacc => by
    simp only [checkTree, Bool.and_eq_true, bne_iff_ne, ne_eq, List.all_eq_true, beq_iff_eq,
      List.contains_eq_mem, decide_eq_true_eq] at hc
    obtain ⟨⟨⟨_, hmask⟩, hkeys⟩, hch⟩ := hc
    -- all possibly-accepting specs have key `b &&& f`
    have hfilter : firstHit dec (S.filter (fun s => s.afix be maxlen &&& f == b &&& f)) = firstHit dec S := by
      apply firstHit_filter
      intro s hs hp
      by_cases hr : dec s = .reject
      · exact hr
      · exfalso
        have := key_and_node b _ _ f (hmask s hs) (hacc s hs hr)
        simp [this] at hp
    rw [route, ← hfilter]
    exact firstHit_routeChildren be maxlen dec b f cs S hch (fun s hs => Or.inl (hkeys s hs)) hacc
theorem firstHit_routeChildren {I} (be : Bool) (maxlen : Nat) (dec : SpecK → Out I) (b f : Nat) :
    ∀ (cs : List (Nat × Tree)) (S : List SpecK),
      checkTree.checkChildren be maxlen cs f S = true →
      (∀ s ∈ S, (s.afix be maxlen &&& f) ∈ cs.map Prod.fst ∨
                 (s.afix be maxlen &&& f) ≠ (b &&& f)) →
      (∀ s ∈ S, dec s ≠ .reject → b &&& s.amask be maxlen = s.afix be maxlen) →
      firstHit dec (route.routeChildren cs (b &&& f) b)
        = firstHit dec (S.filter (fun s => s.afix be maxlen &&& f == b &&& f))
  | [], S, _, hk, _ => by
    simp only [route.routeChildren, firstHit]
    symm
    apply firstHit_eq_none_of_all_reject
    intro s hs
    simp only [List.mem_filter, beq_iff_eq] at hs
    rcases hk s hs.1 with h | h
    · simp at h
    · exact absurd hs.2 h
  | (k, t) :: rest, S, hc, hk, hacc => by
    simp only [checkTree.checkChildren, Bool.and_eq_true, Bool.not_eq_true', List.contains_eq_mem,
      decide_eq_false_iff_not] at hc
    obtain ⟨⟨hnot, hct⟩, hrest⟩ := hc
    simp only [route.routeChildren]
    by_cases hkk : k = b &&& f
    · subst hkk
      simp only [beq_self_eq_true, ↓reduceIte]
      apply firstHit_route be maxlen dec b t _ hct
      intro s hs hr
      exact hacc s (List.mem_filter.mp hs).1 hr
    · have : (k == b &&& f) = false := by simpa using hkk
      simp only [this, Bool.false_eq_true, ↓reduceIte]
      apply firstHit_routeChildren be maxlen dec b f rest S hrest _ hacc
      intro s hs
      rcases hk s hs with h | h
      · simp only [List.map_cons, List.mem_cons] at h
        rcases h with h | h
        · right; rw [h]; exact hkk
        · left; exact h
      · right; exact h
end

end Amoco.Dis

namespace Amoco.Dis

/-- `call` only looks at its candidate lists through `firstHit`. -/
theorem call_congr {I} (r : Bool) (c1 c2 : List Nat → List SpecK)
    (dec : Option I → List Nat → SpecK → Out I) (xd : I → Option I)
    (h : ∀ st bytes, firstHit (dec st bytes) (c1 bytes) = firstHit (dec st bytes) (c2 bytes)) :
    ∀ fuel st bytes, call r c1 dec xd fuel st bytes = call r c2 dec xd fuel st bytes
  | 0, _, _ => rfl
  | fuel+1, st, bytes => by
    simp only [call, h st bytes]
    split <;> try rfl
    split <;> try rfl
    exact call_congr r c1 c2 dec xd h fuel _ _

/-- the pending instruction is `none` after every call of the repaired `__call__`,
    whatever the outcome (instruction, `None`, or any exception). -/
theorem call_pending_none {I} (cands : List Nat → List SpecK)
    (dec : Option I → List Nat → SpecK → Out I) (xd : I → Option I) :
    ∀ fuel st bytes, (call true cands dec xd fuel st bytes).1 = none
  | 0, _, _ => rfl
  | fuel+1, st, bytes => by
    simp only [call]
    split <;> try rfl
    split <;> try rfl
    · exact call_pending_none cands dec xd fuel _ _
    · split <;> rfl

end Amoco.Dis

namespace Amoco.Dis

theorem firstHit_some {I} (dec : SpecK → Out I) :
    ∀ (l : List SpecK) (s : SpecK) (o : Out I), firstHit dec l = some (s, o) → dec s = o ∧ s ∈ l
  | [], _, _, h => by simp [firstHit] at h
  | a :: l, s, o, h => by
    simp only [firstHit] at h
    split at h
    · have := firstHit_some dec l s o h
      exact ⟨this.1, List.mem_cons_of_mem _ this.2⟩
    · rename_i o' _
      simp only [Option.some.injEq, Prod.mk.injEq] at h
      obtain ⟨rfl, rfl⟩ := h
      exact ⟨rfl, List.mem_cons_self⟩

/-- what `decBytes` puts into an accepted instruction's bytes. -/
theorem decBytes_ok (accepts : SpecK → List Nat → Bool) (hook : SpecK → List Nat → Option Ins → HookOut)
    (st : Option Ins) (bytes : List Nat) (s : SpecK) (i0 : Ins)
    (h : decBytes accepts hook st bytes s = .ok i0) :
    ∃ n, n ≤ bytes.length ∧ s.size / 8 ≤ n ∧ (s.pfx = .prefix → n = s.size / 8) ∧
      i0.bytes = pendBytes st ++ bytes.take n := by
  unfold decBytes at h
  simp only at h
  by_cases h1 : bytes.length < s.size / 8
  · simp [h1] at h
  · by_cases h2 : (!accepts s bytes) = true
    · simp [h1, h2] at h
    · simp only [h1, h2, ↓reduceIte] at h
      cases hh : hook s bytes st with
      | reject => simp [hh] at h
      | raise e => simp [hh] at h
      | ok tag extra =>
        simp only [hh, Bool.false_eq_true, ↓reduceIte, Out.ok.injEq] at h
        refine ⟨s.size / 8 + (if s.pfx == .prefix then 0 else min extra (bytes.length - s.size / 8)), ?_, ?_, ?_, ?_⟩
        · split <;> omega
        · omega
        · intro hp; simp [hp]
        · rw [← h]

end Amoco.Dis

namespace Amoco.Dis

theorem firstHit_congr {I} (d1 d2 : SpecK → Out I) :
    ∀ (l : List SpecK), (∀ s ∈ l, d1 s = d2 s) → firstHit d1 l = firstHit d2 l
  | [], _ => rfl
  | a :: l, h => by
    simp only [firstHit, h a List.mem_cons_self]
    rw [firstHit_congr d1 d2 l (fun s hs => h s (List.mem_cons_of_mem _ hs))]

/-- scanning the whole list: if every spec gives the same outcome on two inputs (and on all their
    common suffix positions, for the prefix recursion), the two calls give the same result. -/
theorem scan_eq_of_dec_eq {I} (r : Bool) (S : List SpecK)
    (dec : Option I → List Nat → SpecK → Out I) (xd : I → Option I) (b1 b2 : List Nat)
    (h : ∀ k st s, s ∈ S → dec st (b1.drop k) s = dec st (b2.drop k) s) :
    ∀ fuel k st, call r (fun _ => S) dec xd fuel st (b1.drop k) = call r (fun _ => S) dec xd fuel st (b2.drop k)
  | 0, _, _ => rfl
  | fuel+1, k, st => by
    simp only [call]
    rw [firstHit_congr _ _ S (fun s hs => h k st s hs)]
    split <;> try rfl
    split <;> try rfl
    rename_i s _ _ _
    rw [List.drop_drop, List.drop_drop]
    exact scan_eq_of_dec_eq r S dec xd b1 b2 h fuel _ _

end Amoco.Dis
