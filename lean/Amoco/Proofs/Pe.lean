/-
  Amoco.Proofs.Pe — lemmas about the PE model (Amoco/Model/Pe.lean):
  * in-bounds struct unpack = reading the layout's offsets; a successful unpack was in bounds;
  * the layouts the code's field lists (with the PE32+ patch) produce = the specification's tables;
  * stage lemmas for DOS / COFF / optional header / tables, and the exception classes each raises.
-/
import Amoco.Model.Pe

namespace Amoco.Pe

open Ref

/-! ## slices and alignment -/

theorem slice_length_of_le {data : Bytes} {off n : Nat} (h : off + n ≤ data.length) :
    (slice data off n).length = n := by
  simp [slice]; omega

theorem slice_bound {data : Bytes} {off n : Nat} (hn : 0 < n) (h : (slice data off n).length = n) :
    off + n ≤ data.length := by
  simp [slice] at h; omega

theorem alignUp_ge (off a : Nat) : off ≤ alignUp off a := by
  unfold alignUp; split
  · omega
  · split <;> omega

theorem layoutEnd_ge (fs : List Field) (rel : Nat) : rel ≤ layoutEnd fs rel := by
  induction fs generalizing rel with
  | nil => simp [layoutEnd]
  | cons f fs ih =>
    simp only [layoutEnd]
    have := ih (alignUp rel f.esize + f.nbytes)
    have := alignUp_ge rel f.esize
    omega

/-! ## layout of a field list -/

/-- (kind, offset relative to the structure, size) of every field, as `StructCore.unpack` walks them -/
def layout : List Field → Nat → List (Kind × Nat × Nat)
  | [], _ => []
  | f :: fs, rel => (f.kind, alignUp rel f.esize, f.nbytes) :: layout fs (alignUp rel f.esize + f.nbytes)

def readAt (data : Bytes) (base : Nat) (e : Kind × Nat × Nat) : Nat :=
  fieldVal e.1 (slice data (base + e.2.1) e.2.2)

/-- an unpack whose last field ends inside the data reads exactly the layout's offsets -/
theorem unpackFields_ok (fs : List Field) (data : Bytes) (base rel : Nat)
    (h : base + layoutEnd fs rel ≤ data.length) :
    unpackFields fs data base rel = .ok ((layout fs rel).map (readAt data base)) := by
  induction fs generalizing rel with
  | nil => rfl
  | cons f fs ih =>
    simp only [layoutEnd] at h
    have h1 := layoutEnd_ge fs (alignUp rel f.esize + f.nbytes)
    have hl : (slice data (base + alignUp rel f.esize) f.nbytes).length = f.nbytes :=
      slice_length_of_le (by omega)
    simp only [unpackFields, rdField, hl, beq_self_eq_true, if_true, ih _ h, layout, List.map, readAt]

/-- conversely a successful unpack of fields of positive size was inside the data -/
theorem unpackFields_bound (fs : List Field) (data : Bytes) (base rel : Nat) (r : Rec)
    (hpos : ∀ f ∈ fs, 0 < f.nbytes) (hne : fs ≠ [])
    (h : unpackFields fs data base rel = .ok r) : base + layoutEnd fs rel ≤ data.length := by
  induction fs generalizing rel r with
  | nil => exact absurd rfl hne
  | cons f fs ih =>
    simp only [unpackFields, rdField] at h
    split at h
    · cases h
    · rename_i v hv
      split at hv
      · rename_i hlen
        have hlen' : (slice data (base + alignUp rel f.esize) f.nbytes).length = f.nbytes := by
          simpa using hlen
        have hb := slice_bound (hpos f (by simp)) hlen'
        split at h
        · cases h
        · rename_i r' hr'
          by_cases hfs : fs = []
          · subst hfs; simp only [layoutEnd]; omega
          · simp only [layoutEnd]
            exact ih _ r' (fun g hg => hpos g (by simp [hg])) hfs hr'
      · cases hv

/-- the only exception class the bare field loop raises is `struct.error` -/
theorem unpackFields_raises (fs : List Field) (data : Bytes) (base rel : Nat) (e : PyExn)
    (h : unpackFields fs data base rel = .error e) : e = .structError := by
  induction fs generalizing rel with
  | nil => cases h
  | cons f fs ih =>
    simp only [unpackFields, rdField] at h
    split at h
    · rename_i e' he'
      split at he'
      · cases he'
      · cases he'; cases h; rfl
    · split at h
      · rename_i e' he'; cases h; exact ih _ he'
      · cases h

theorem structUnpack_raises (fs : List Field) (data : Bytes) (base : Nat) (e : PyExn)
    (h : structUnpack fs data base = .error e) : e = .structureError := by
  unfold structUnpack at h
  split at h
  · cases h; rfl
  · cases h

theorem structUnpack_ok (fs : List Field) (data : Bytes) (base : Nat)
    (h : base + layoutEnd fs 0 ≤ data.length) :
    structUnpack fs data base = .ok ((layout fs 0).map (readAt data base)) := by
  simp [structUnpack, unpackFields_ok fs data base 0 h]

theorem structUnpack_bound (fs : List Field) (data : Bytes) (base : Nat) (r : Rec)
    (hpos : ∀ f ∈ fs, 0 < f.nbytes) (hne : fs ≠ [])
    (h : structUnpack fs data base = .ok r) : base + layoutEnd fs 0 ≤ data.length := by
  unfold structUnpack at h
  split at h
  · cases h
  · rename_i r' hr'
    exact unpackFields_bound fs data base 0 r' hpos hne hr'

/-! ## the reference primitive -/

theorem leTake_eq (l : Bytes) (n : Nat) : leTake l n = leVal (l.take n) := by
  induction n generalizing l with
  | zero => cases l <;> simp [leTake, leVal]
  | succ n ih => cases l <;> simp [leTake, leVal, ih]

theorem beTake_eq (l : Bytes) (n acc : Nat) :
    beTake l n acc = (l.take n).foldl (fun a b => a * 256 + b) acc := by
  induction n generalizing l acc with
  | zero => cases l <;> simp [beTake]
  | succ n ih => cases l <;> simp [beTake, ih]

/-- a specification entry as a layout entry -/
def ofSpec (e : Bool × Nat × Nat) : Kind × Nat × Nat := (if e.1 then .bytes else .le, e.2.1, e.2.2)

theorem readAt_ofSpec (data : Bytes) (base : Nat) (e : Bool × Nat × Nat) :
    readAt data base (ofSpec e) = rd data base e := by
  obtain ⟨b, o, n⟩ := e
  cases b <;> simp [readAt, ofSpec, rd, fieldVal, slice, leTake_eq, beTake_eq, beVal]

theorem map_readAt_ofSpec (data : Bytes) (base : Nat) (s : Spec) :
    (s.map ofSpec).map (readAt data base) = readSpec data base s := by
  simp [readSpec, List.map_map, Function.comp_def, readAt_ofSpec]

/-! ## the code's field lists lay out as the specification says -/

theorem coff_layout : layout coffFields 0 = coffSpec.map ofSpec := by decide
theorem opt32_layout : layout opt32Fields 0 = opt32Spec.map ofSpec := by decide
theorem opt64_layout : layout (optFields [0x0b, 0x02]) 0 = opt64Spec.map ofSpec := by decide
theorem dd_layout : layout ddFields 0 = ddSpec.map ofSpec := by decide
theorem sec_layout : layout secFields 0 = secSpec.map ofSpec := by decide
theorem dos_layout : layout dosFields 0 = [(.bytes, 0, 2), (.pad, 2, 58), (.le, 60, 4)] := by decide

theorem dos_end : layoutEnd dosFields 0 = 64 := by decide
theorem coff_end : layoutEnd coffFields 0 = 24 := by decide
theorem coff_len : structLen coffFields = 24 := by decide
theorem opt32_end : layoutEnd opt32Fields 0 = 96 := by decide +kernel
theorem opt32_len : structLen opt32Fields = 96 := by decide +kernel
theorem opt64_end : layoutEnd (optFields [0x0b, 0x02]) 0 = 112 := by decide +kernel
theorem opt64_len : structLen (optFields [0x0b, 0x02]) = 112 := by decide +kernel
theorem dd_end : layoutEnd ddFields 0 = 8 := by decide
theorem dd_len : structLen ddFields = 8 := by decide
theorem sec_end : layoutEnd secFields 0 = 40 := by decide
theorem sec_len : structLen secFields = 40 := by decide

theorem optFields_other (m : Bytes) (h : m ≠ [0x0b, 0x02]) : optFields m = opt32Fields := by
  simp [optFields, h]

theorem dd_pos : ∀ f ∈ ddFields, 0 < f.nbytes := by decide
theorem sec_pos : ∀ f ∈ secFields, 0 < f.nbytes := by decide
theorem coff_pos : ∀ f ∈ coffFields, 0 < f.nbytes := by decide
theorem dos_pos : ∀ f ∈ dosFields, 0 < f.nbytes := by decide

/-! ## tables -/

theorem tableLoop_ok (fs : List Field) (s : Spec) (sz : Nat)
    (hl : layout fs 0 = s.map ofSpec) (hlen : structLen fs = sz) (hend : layoutEnd fs 0 ≤ sz)
    (data : Bytes) (n off : Nat) (h : off + sz * n ≤ data.length) :
    tableLoop fs data n off = .ok ((List.range n).map (fun i => readSpec data (off + sz * i) s)) := by
  induction n generalizing off with
  | zero => rfl
  | succ n ih =>
    have hb : off + layoutEnd fs 0 ≤ data.length := by
      have : sz * (n + 1) = sz * n + sz := Nat.mul_succ sz n
      omega
    have h2 : off + sz + sz * n ≤ data.length := by
      have : sz * (n + 1) = sz * n + sz := Nat.mul_succ sz n
      omega
    simp only [tableLoop, structUnpack_ok fs data off hb, hl, map_readAt_ofSpec, hlen, ih (off + sz) h2]
    rw [List.range_succ_eq_map]
    simp only [List.map_cons, List.map_map, Nat.mul_zero, Nat.add_zero]
    congr 2
    apply List.map_congr_left
    intro i _
    simp only [Function.comp_def]
    have : sz * (i + 1) = sz * i + sz := Nat.mul_succ sz i
    rw [this, Nat.add_assoc, Nat.add_comm sz]

theorem tableLoop_raises (fs : List Field) (data : Bytes) (n off : Nat) (e : PyExn)
    (h : tableLoop fs data n off = .error e) : e = .structureError := by
  induction n generalizing off with
  | zero => cases h
  | succ n ih =>
    simp only [tableLoop] at h
    split at h
    · rename_i e' he'; cases h; exact structUnpack_raises _ _ _ _ he'
    · split at h
      · rename_i e' he'; cases h; exact ih _ he'
      · cases h

/-- a table that was read has as many entries as asked for, each one inside the data -/
theorem tableLoop_bound (fs : List Field) (hpos : ∀ f ∈ fs, 0 < f.nbytes) (hne : fs ≠ [])
    (data : Bytes) (n off : Nat) (l : List Rec) (h : tableLoop fs data n off = .ok l) :
    l.length = n ∧ (0 < n → off + structLen fs * (n - 1) + layoutEnd fs 0 ≤ data.length) := by
  induction n generalizing off l with
  | zero => simp only [tableLoop] at h; cases h; simp
  | succ n ih =>
    simp only [tableLoop] at h
    split at h
    · cases h
    · rename_i s hs
      split at h
      · cases h
      · rename_i l' hl'
        cases h
        have hb := structUnpack_bound fs data off s hpos hne hs
        obtain ⟨hlen, hrest⟩ := ih _ _ hl'
        refine ⟨by simp [hlen], fun _ => ?_⟩
        cases n with
        | zero => simpa using hb
        | succ m =>
          have := hrest (by omega)
          have e1 : structLen fs * (m + 1 + 1 - 1) = structLen fs * m + structLen fs := by
            rw [show m + 1 + 1 - 1 = m + 1 by omega, Nat.mul_succ]
          have e2 : structLen fs * (m + 1 - 1) = structLen fs * m := by
            rw [show m + 1 - 1 = m by omega]
          rw [e1]; rw [e2] at this; omega

/-! ## bytes and magic values -/

theorem take2_of_leTake (l : Bytes) (lo hi : Nat) (hb : ∀ b ∈ l, b < 256) (hl : 2 ≤ l.length)
    (hlo : lo < 256) (hhi : hi < 256) (h : leTake l 2 = lo + 256 * hi) : l.take 2 = [lo, hi] := by
  rcases l with _ | ⟨a, _ | ⟨b, t⟩⟩
  · simp at hl
  · simp at hl
  · have ha : a < 256 := hb a (by simp)
    have hb' : b < 256 := hb b (by simp)
    simp [leTake] at h
    simp
    omega

theorem slice2_of_u16 (data : Bytes) (off lo hi : Nat) (hb : data.all (· < 256) = true)
    (hl : off + 2 ≤ data.length) (hlo : lo < 256) (hhi : hi < 256)
    (h : u16 data off = lo + 256 * hi) : slice data off 2 = [lo, hi] := by
  unfold slice
  apply take2_of_leTake _ _ _ _ _ hlo hhi h
  · intro b hbm
    have := List.all_eq_true.mp hb b (List.mem_of_mem_drop hbm)
    simpa using this
  · simp; omega

theorem u16_lt (data : Bytes) (off : Nat) (hb : data.all (· < 256) = true) : u16 data off < 65536 := by
  have hd : ∀ b ∈ data.drop off, b < 256 := fun b hbm => by
    have := List.all_eq_true.mp hb b (List.mem_of_mem_drop hbm); simpa using this
  unfold u16 uN
  generalize data.drop off = l at hd
  rcases l with _ | ⟨a, _ | ⟨b, t⟩⟩
  · simp [leTake]
  · have := hd a (by simp); simp [leTake]; omega
  · have := hd a (by simp); have := hd b (by simp); simp [leTake]; omega

end Amoco.Pe
