/-
  Amoco.Proofs.Rv — helper lemmas for C06 (RISC-V part): machine-state algebra, the bridge between the
  DSL's width-tagged naturals and core `BitVec`, the decoder-hook immediates, statement shapes.
-/
import Amoco.Model.SemDsl
import Amoco.Model.Flags

namespace Amoco.Rv
variable {n : Nat}

/-! ### state lemmas -/
@[simp] theorem get_withPc (σ : State n) (p : BitVec n) (i : Nat) : (σ.withPc p).get i = σ.get i := by
  simp [State.withPc, State.get]
@[simp] theorem pc_withPc (σ : State n) (p : BitVec n) : (σ.withPc p).pc = p := rfl
@[simp] theorem mem_withPc (σ : State n) (p : BitVec n) : (σ.withPc p).mem = σ.mem := rfl
@[simp] theorem withPc_withPc (σ : State n) (p q : BitVec n) : (σ.withPc p).withPc q = σ.withPc q := rfl
theorem set_withPc (σ : State n) (p : BitVec n) (i : Nat) (v : BitVec n) :
    (σ.withPc p).set i v = (σ.set i v).withPc p := by
  unfold State.set State.withPc; split <;> rfl
@[simp] theorem set_zero (σ : State n) (v : BitVec n) : σ.set 0 v = σ := by simp [State.set]
@[simp] theorem pc_set (σ : State n) (i : Nat) (v : BitVec n) : (σ.set i v).pc = σ.pc := by
  unfold State.set; split <;> rfl
@[simp] theorem mem_set (σ : State n) (i : Nat) (v : BitVec n) : (σ.set i v).mem = σ.mem := by
  unfold State.set; split <;> rfl
@[simp] theorem withPc_self (σ : State n) : σ.withPc σ.pc = σ := rfl

/-! ### values as bit-vectors -/
def bv {w : Nat} (x : BitVec w) (sf : Bool) : Val := ⟨x.toNat, w, sf⟩

@[simp] theorem bv_size {w} (x : BitVec w) (sf) : (bv x sf).size = w := rfl
@[simp] theorem bv_v {w} (x : BitVec w) (sf) : (bv x sf).v = x.toNat := rfl
@[simp] theorem bv_sf {w} (x : BitVec w) (sf) : (bv x sf).sf = sf := rfl
theorem mk_eq_bv {w} (x : BitVec w) (sf) : (⟨x.toNat, w, sf⟩ : Val) = bv x sf := rfl
@[simp] theorem bv_with_sf {w} (x : BitVec w) (sf s) : ({ bv x sf with sf := s } : Val) = bv x s := rfl

theorem sint_bv {w} (x : BitVec w) (sf) : (bv x sf).sint = x.toInt := by
  rw [BitVec.toInt_eq_toNat_cond]
  unfold Val.sint bv
  by_cases h : 2 * x.toNat < 2 ^ w
  · have h' : ¬ (2 ^ w ≤ 2 * x.toNat) := by omega
    simp [h, h']
  · have h' : (2 ^ w ≤ 2 * x.toNat) := by omega
    simp [h, h']

theorem toInt_bv_signed {w} (x : BitVec w) : (bv x true).toInt = x.toInt := by
  rw [← sint_bv x true]
  simp only [Val.toInt, Val.sint, bv, Bool.true_and]
  by_cases h : 2 ^ w ≤ 2 * x.toNat <;> simp [h]

theorem toInt_bv_unsigned {w} (x : BitVec w) : (bv x false).toInt = x.toNat := by
  simp [Val.toInt, bv]

theorem mkCst_bv (v : Int) (w : Nat) : mkCst v w = bv (BitVec.ofInt w v) (decide (v < 0)) := by
  simp [mkCst, bv, BitVec.toNat_ofInt]

theorem bit_congr {a b : Bool} (h : a = b) : bit a = bit b := by rw [h]

@[simp] theorem binop_add {w} (a b : BitVec w) (s1 s2) :
    binop .add (bv a s1) (bv b s2) = some (bv (a + b) (s1 || s2)) := by
  simp [binop, bv, BitVec.toNat_add]
@[simp] theorem binop_sub {w} (a b : BitVec w) (s1 s2) :
    binop .sub (bv a s1) (bv b s2) = some (bv (a - b) (s1 || s2)) := by
  simp [binop, bv, BitVec.toNat_sub]
@[simp] theorem binop_and {w} (a b : BitVec w) (s1 s2) :
    binop .and (bv a s1) (bv b s2) = some (bv (a &&& b) s1) := by
  simp [binop, bv]
@[simp] theorem binop_or {w} (a b : BitVec w) (s1 s2) :
    binop .or (bv a s1) (bv b s2) = some (bv (a ||| b) s1) := by
  simp [binop, bv]
@[simp] theorem binop_xor {w} (a b : BitVec w) (s1 s2) :
    binop .xor (bv a s1) (bv b s2) = some (bv (a ^^^ b) s1) := by
  simp [binop, bv]
@[simp] theorem binop_shl {w} (a : BitVec w) (s1) (b : Val) :
    binop .shl (bv a s1) b = some (bv (a <<< b.v) s1) := by
  simp [binop, bv, BitVec.toNat_shiftLeft]
@[simp] theorem binop_shr {w} (a : BitVec w) (s1) (b : Val) :
    binop .shr (bv a s1) b = some (bv (a >>> b.v) s1) := by
  simp [binop, bv]
@[simp] theorem binop_sar {w} (a : BitVec w) (s1) (b : Val) :
    binop .sar (bv a s1) b = some (bv (a.sshiftRight b.v) s1) := by
  simp only [binop, sint_bv]
  have : ((a.toInt >>> b.v) % ((2 ^ w : Nat) : Int)).toNat = (a.sshiftRight b.v).toNat := by
    rw [← BitVec.toInt_sshiftRight, ← BitVec.toNat_ofInt, BitVec.ofInt_toInt]
  simp only [bv_size, bv_sf, this]
  rfl
@[simp] theorem binop_eq {w} (a b : BitVec w) (s1 s2) :
    binop .eq (bv a s1) (bv b s2) = some (bit (a == b)) := by
  simp only [binop, bv, if_true, Option.some.injEq]
  apply bit_congr
  rw [Bool.eq_iff_iff]; simp [BitVec.toNat_inj]
@[simp] theorem binop_ne {w} (a b : BitVec w) (s1 s2) :
    binop .ne (bv a s1) (bv b s2) = some (bit (a != b)) := by
  simp only [binop, bv, if_true, Option.some.injEq]
  apply bit_congr
  rw [Bool.eq_iff_iff]; simp [BitVec.toNat_inj]
@[simp] theorem binop_lt_signed {w} (a b : BitVec w) :
    binop .lt (bv a true) (bv b true) = some (bit (a.slt b)) := by
  simp only [binop, toInt_bv_signed, BitVec.slt_eq_decide, bv_size, if_true]
@[simp] theorem binop_ge_signed {w} (a b : BitVec w) :
    binop .ge (bv a true) (bv b true) = some (bit (!(a.slt b))) := by
  simp only [binop, toInt_bv_signed, BitVec.slt_eq_decide, bv_size, if_true, Option.some.injEq]
  apply bit_congr
  rw [Bool.eq_iff_iff]; simp [Int.not_lt]
@[simp] theorem binop_ltu {w} (a b : BitVec w) (s1 s2) :
    binop .ltu (bv a s1) (bv b s2) = some (bit (a.ult b)) := by
  by_cases h : a.toNat < b.toNat <;> simp [binop, bv, bit, h, BitVec.ult_eq_decide]
@[simp] theorem binop_geu {w} (a b : BitVec w) (s1 s2) :
    binop .geu (bv a s1) (bv b s2) = some (bit (!(a.ult b))) := by
  simp only [binop, BitVec.ult_eq_decide, bv_size, bv_v, if_true, Option.some.injEq]
  apply bit_congr
  rw [Bool.eq_iff_iff]; simp [Nat.not_lt]

theorem slcV_bv {w} (x : BitVec w) (sf) (lo hi : Nat) (h1 : lo < hi) (h2 : hi ≤ w) :
    slcV (bv x sf) lo hi = some (bv (x.extractLsb' lo (hi - lo)) sf) := by
  simp [slcV, bv, h1, h2, BitVec.extractLsb'_toNat]

theorem sextV_bv {w} (x : BitVec w) (sf) (m : Nat) (h : w < m) :
    sextV (bv x sf) m = bv (x.signExtend m) true := by
  have h' : ¬ (m ≤ w) := by omega
  simp only [sextV, bv_size, h', if_false, sint_bv]
  simp only [bv, BitVec.signExtend, BitVec.toNat_ofInt]

theorem sextV_bv_same {w} (x : BitVec w) (sf) : sextV (bv x sf) w = bv x sf := by
  simp [sextV]

theorem zextV_bv {w} (x : BitVec w) (sf) (m : Nat) (h : w < m) :
    zextV (bv x sf) m = bv (x.setWidth m) false := by
  have h' : ¬ (m ≤ w) := by omega
  have : x.toNat % 2 ^ m = x.toNat := Nat.mod_eq_of_lt (Nat.lt_of_lt_of_le x.isLt (Nat.pow_le_pow_right (by decide) (by omega)))
  simp [zextV, bv, h', this]

theorem zextV_bv_same {w} (x : BitVec w) (sf) : zextV (bv x sf) w = bv x sf := by
  simp [zextV]

theorem tstV_bit {w} (c : Bool) (a b : BitVec w) (s1 s2) :
    tstV (bit c) (bv a s1) (bv b s2) = some (if c then bv a s1 else bv b s2) := by
  cases c <;> simp [tstV, bit]

/-- `readOpnd` of a register -/
theorem readOpnd_reg (σ : State n) (i : Nat) : readOpnd σ (.reg i) = some (bv (σ.get i) false) := rfl

/-- `env.cst(v, size)` read back -/
theorem readOpnd_cstOf (σ : State n) (v : Int) (size : Nat) :
    readOpnd σ (cstOf v size) = some (bv (BitVec.ofInt size v) (decide (v < 0))) := by
  simp [readOpnd, cstOf, bv, BitVec.toNat_ofInt]

theorem loadBytes_lt (mem : BitVec n → BitVec 8) (a : BitVec n) (k : Nat) : loadBytes mem a k < 2 ^ (8 * k) := by
  induction k generalizing a with
  | zero => simp [loadBytes]
  | succ k ih =>
    simp only [loadBytes]
    have h1 := (mem a).isLt
    have h2 := ih (a + 1)
    have : 2 ^ (8 * (k + 1)) = 256 * 2 ^ (8 * k) := by
      rw [Nat.mul_add, Nat.pow_add]; simp [Nat.mul_comm]
    omega

theorem Bits_sint_fld (w : BitVec 32) (lo len : Nat) : Bits.sint (fld w lo len) = (w.extractLsb' lo len).toInt := by
  exact sint_bv (w.extractLsb' lo len) false

theorem Bits_cat_bv {m k} (x : BitVec m) (y : BitVec k) :
    Bits.cat (x.toNat, m) (y.toNat, k) = ((y ++ x).toNat, m + k) := by
  simp only [Bits.cat, BitVec.toNat_append]
  rw [← Nat.shiftLeft_add_eq_or_of_lt x.isLt, Nat.shiftLeft_eq, Nat.add_comm]


theorem toNat_append_add {m k} (x : BitVec m) (y : BitVec k) : (x ++ y).toNat = x.toNat * 2 ^ k + y.toNat := by
  rw [BitVec.toNat_append, ← Nat.shiftLeft_add_eq_or_of_lt y.isLt, Nat.shiftLeft_eq]

theorem ofInt_four (n : Nat) : BitVec.ofInt n 4 = 4#n := by
  have : (4 : Int) = ((4 : Nat) : Int) := rfl
  rw [this, BitVec.ofInt_natCast]

theorem writeLoc_pc_bv (ops : List Operand) (c : Ctx n) (x : BitVec n) (sf : Bool) :
    writeLoc ops c .pc (bv x sf) = some { c with st := c.st.withPc x } := by
  simp [writeLoc]

theorem writeLoc_reg_bv (ops : List Operand) (c : Ctx n) (i r : Nat) (x : BitVec n) (sf : Bool)
    (h : ops[i]? = some (.reg r)) :
    writeLoc ops c (.opnd i) (bv x sf) = some { c with st := c.st.set r x } := by
  simp [writeLoc, h]

theorem writeLoc_mem_bv (ops : List Operand) (c : Ctx n) (i base k : Nat) (disp : Int) (x : BitVec (8 * k)) (sf : Bool)
    (h : ops[i]? = some (.mem base (8 * k) disp)) :
    writeLoc ops c (.opnd i) (bv x sf) =
      some { c with st := { c.st with mem := storeBytes c.st.mem (memAddr c.st base disp) x.toNat k } } := by
  simp [writeLoc, h]

/-- the `@__npc` step -/
theorem exec_npc (ops : List Operand) (σ : State n) (l : List Val) :
    execStmt ops ⟨σ, l⟩ npc = some ⟨σ.withPc (σ.pc + 4#n), l⟩ := by
  simp [npc, execStmt, evalE, mk_eq_bv, mkCst_bv, writeLoc_pc_bv]

theorem exec_guard_reg (ops : List Operand) (c : Ctx n) (i r : Nat) (s : Stmt) (h : ops[i]? = some (.reg r)) :
    execStmt ops c (.guardNZ i s) = if r = 0 then some c else execStmt ops c s := by
  simp [execStmt, h]

/-- forget the declared signedness -/
def Val.nosf (a : Val) : Val := { a with sf := false }

@[simp] theorem nosf_bv {w} (x : BitVec w) (sf) : (bv x sf).nosf = bv x false := rfl

theorem eq_bv_of_nosf {w} {val : Val} {x : BitVec w} (h : val.nosf = bv x false) : val = bv x val.sf := by
  cases val with
  | mk v size sf =>
    simp only [Val.nosf, bv, Val.mk.injEq] at h
    obtain ⟨h1, h2, _⟩ := h
    subst h1 h2; rfl

theorem eval_of_nosf {ops : List Operand} {c : Ctx n} {e : E} {w} {x : BitVec w}
    (he : (evalE ops c e).map Val.nosf = some (bv x false)) : ∃ sf, evalE ops c e = some (bv x sf) := by
  cases h : evalE ops c e with
  | none => simp [h] at he
  | some val =>
    simp only [h, Option.map_some, Option.some.injEq] at he
    exact ⟨val.sf, congrArg some (eq_bv_of_nosf he)⟩

/-- `@__npc` + `if dst is not zero: fmap[dst] = fmap(e)` -/
theorem semIdeal_wr {ops : List Operand} {rd : Nat} {e : E} {σ : State n} (v : BitVec n)
    (h0 : ops[0]? = some (.reg rd))
    (he : (evalE ops ⟨σ.withPc (σ.pc + 4#n), []⟩ e).map Val.nosf = some (bv v false)) :
    semIdeal (wr e) ops σ = some ((σ.set rd v).withPc (σ.pc + 4#n)) := by
  obtain ⟨sf, he⟩ := eval_of_nosf he
  simp only [semIdeal, wr, execAll, exec_npc, exec_guard_reg _ _ _ _ _ h0]
  by_cases h : rd = 0
  · subst h; simp
  · simp [h, execStmt, he, writeLoc_reg_bv _ _ _ _ _ _ h0, set_withPc]

/-- `@__npc` + unguarded `fmap[dst] = e` with a register destination (the final `i_LB`, `i_LBU`) -/
theorem semIdeal_ld {ops : List Operand} {rd : Nat} {e : E} {σ : State n} (v : BitVec n)
    (h0 : ops[0]? = some (.reg rd))
    (he : (evalE ops ⟨σ.withPc (σ.pc + 4#n), []⟩ e).map Val.nosf = some (bv v false)) :
    semIdeal [npc, .assign (.opnd 0) e] ops σ = some ((σ.set rd v).withPc (σ.pc + 4#n)) := by
  obtain ⟨sf, he⟩ := eval_of_nosf he
  simp [semIdeal, execAll, exec_npc, execStmt, he, writeLoc_reg_bv _ _ _ _ _ _ h0, set_withPc]

/-- `@__npc` + `fmap[dst] = e` with a memory destination -/
theorem semIdeal_st {ops : List Operand} {base k : Nat} {disp : Int} {e : E} {σ : State n} (v : BitVec (8 * k))
    (h0 : ops[0]? = some (.mem base (8 * k) disp))
    (he : (evalE ops ⟨σ.withPc (σ.pc + 4#n), []⟩ e).map Val.nosf = some (bv v false)) :
    semIdeal [npc, .assign (.opnd 0) e] ops σ =
      some (({ σ with mem := storeBytes σ.mem (memAddr σ base disp) v.toNat k } : State n).withPc (σ.pc + 4#n)) := by
  obtain ⟨sf, he⟩ := eval_of_nosf he
  simp [semIdeal, execAll, exec_npc, execStmt, he, writeLoc_mem_bv _ _ _ _ _ _ _ _ h0, memAddr]
  rfl

/-- conditional branches -/
theorem semIdeal_branch {ops : List Operand} {c : E} {σ : State n} (b : Bool) (imm : BitVec n)
    (hc : evalE ops ⟨σ, []⟩ c = some (bit b))
    (h2 : (evalE ops ⟨σ, []⟩ (.opnd 2)).map Val.nosf = some (bv imm false)) :
    semIdeal (branch c) ops σ = some (σ.withPc (if b then σ.pc + imm else σ.pc + 4#n)) := by
  obtain ⟨sf, h2⟩ := eval_of_nosf h2
  simp only [evalE] at h2
  cases b <;>
  simp [semIdeal, branch, execAll, execStmt, evalE, hc, h2, mk_eq_bv, mkCst_bv, tstV_bit, writeLoc_pc_bv]


/-! ### the decoder hooks assemble the manual's immediates -/

macro "imm_arith" : tactic => `(tactic|
  (simp only [Bits.cat, Bits.sint, fld, BitVec.toInt_eq_toNat_cond, toNat_append_add, BitVec.extractLsb'_toNat,
     BitVec.toNat_ofNat, Nat.shiftRight_eq_div_pow]
   (repeat' split) <;> omega))

theorem immI_int (w : BitVec 32) : (fld w 20 12).sint = (w.extractLsb' 20 12).toInt := Bits_sint_fld w 20 12

theorem immS_int (w : BitVec 32) :
    ((fld w 7 5).cat (fld w 25 7)).sint = (w.extractLsb' 25 7 ++ w.extractLsb' 7 5).toInt := by
  have := w.isLt
  imm_arith

theorem immB_int (w : BitVec 32) :
    ((((fld w 8 4).cat (fld w 25 6)).cat (fld w 7 1)).cat (fld w 31 1)).sint * 2
      = (w.extractLsb' 31 1 ++ w.extractLsb' 7 1 ++ w.extractLsb' 25 6 ++ w.extractLsb' 8 4 ++ 0#1).toInt := by
  have := w.isLt
  imm_arith

theorem immJ_int (w : BitVec 32) :
    ((((fld w 21 10).cat (fld w 20 1)).cat (fld w 12 8)).cat (fld w 31 1)).sint * 2
      = (w.extractLsb' 31 1 ++ w.extractLsb' 12 8 ++ w.extractLsb' 20 1 ++ w.extractLsb' 21 10 ++ 0#1).toInt := by
  have := w.isLt
  imm_arith

theorem immU_int (w : BitVec 32) :
    (fld w 12 20).sint * 2 ^ 12 = (w.extractLsb' 12 20 ++ 0#12).toInt := by
  have := w.isLt
  imm_arith

theorem immU_nat (w : BitVec 32) :
    (fld w 12 20).1 * 2 ^ 12 = (w.extractLsb' 12 20 ++ 0#12).toNat := by
  simp only [fld, toNat_append_add, BitVec.toNat_ofNat]
  omega

theorem ofInt_immI (n : Nat) (w : BitVec 32) : BitVec.ofInt n (fld w 20 12).sint = immI n w := by
  rw [immI_int]; rfl
theorem ofInt_immS (n : Nat) (w : BitVec 32) : BitVec.ofInt n ((fld w 7 5).cat (fld w 25 7)).sint = immS n w := by
  rw [immS_int]; rfl
theorem ofInt_immB (n : Nat) (w : BitVec 32) :
    BitVec.ofInt n (((((fld w 8 4).cat (fld w 25 6)).cat (fld w 7 1)).cat (fld w 31 1)).sint * 2) = immB n w := by
  rw [immB_int]; rfl
theorem ofInt_immJ (n : Nat) (w : BitVec 32) :
    BitVec.ofInt n (((((fld w 21 10).cat (fld w 20 1)).cat (fld w 12 8)).cat (fld w 31 1)).sint * 2) = immJ n w := by
  rw [immJ_int]; rfl
theorem ofInt_immU (n : Nat) (w : BitVec 32) :
    BitVec.ofInt n ((fld w 12 20).sint * 2 ^ 12) = immU n w := by
  rw [immU_int]; rfl

/-- RV32I builds the U-immediate as an unsigned 32-bit constant: the same 32 bits -/
theorem ofInt_immU32 (w : BitVec 32) :
    BitVec.ofInt 32 (((fld w 12 20).1 * 2 ^ 12 : Nat) : Int) = immU 32 w := by
  rw [BitVec.ofInt_natCast, immU_nat, BitVec.ofNat_toNat]
  simp [immU]


theorem storeBytes_mod {n} (mem : BitVec n → BitVec 8) (a : BitVec n) (v k : Nat) :
    storeBytes mem a (v % 2 ^ (8 * k)) k = storeBytes mem a v k := by
  induction k generalizing mem a v with
  | zero => simp [storeBytes]
  | succ k ih =>
    simp only [storeBytes]
    have e : 2 ^ (8 * (k + 1)) = 256 * 2 ^ (8 * k) := by
      rw [Nat.mul_add, Nat.pow_add]; simp [Nat.mul_comm]
    have h1 : BitVec.ofNat 8 (v % 2 ^ (8 * (k + 1))) = BitVec.ofNat 8 v := by
      apply BitVec.eq_of_toNat_eq
      simp only [BitVec.toNat_ofNat, e]
      exact Nat.mod_mod_of_dvd v ⟨_, rfl⟩
    have h2 : v % 2 ^ (8 * (k + 1)) / 256 = v / 256 % 2 ^ (8 * k) := by
      rw [e, Nat.mod_mul_right_div_self]
    rw [h1, h2, ih]

theorem storeBytes_extract {n m} (mem : BitVec n → BitVec 8) (a : BitVec n) (x : BitVec m) (k : Nat) :
    storeBytes mem a (x.extractLsb' 0 (8 * k)).toNat k = storeBytes mem a x.toNat k := by
  rw [BitVec.extractLsb'_toNat, Nat.shiftRight_zero, storeBytes_mod]

theorem readOpnd_mem {n} (σ : State n) (base k : Nat) (disp : Int) :
    readOpnd σ (.mem base (8 * k) disp) =
      some (bv (BitVec.ofNat (8 * k) (loadBytes σ.mem (memAddr σ base disp) k)) false) := by
  have h := loadBytes_lt σ.mem (memAddr σ base disp) k
  simp [readOpnd, bv, Nat.mod_eq_of_lt h]

theorem readOpnd_mem8 {n} (σ : State n) (base : Nat) (disp : Int) :
    readOpnd σ (.mem base 8 disp) = some (bv (BitVec.ofNat 8 (loadBytes σ.mem (memAddr σ base disp) 1)) false) :=
  readOpnd_mem σ base 1 disp
theorem readOpnd_mem16 {n} (σ : State n) (base : Nat) (disp : Int) :
    readOpnd σ (.mem base 16 disp) = some (bv (BitVec.ofNat 16 (loadBytes σ.mem (memAddr σ base disp) 2)) false) :=
  readOpnd_mem σ base 2 disp
theorem readOpnd_mem32 {n} (σ : State n) (base : Nat) (disp : Int) :
    readOpnd σ (.mem base 32 disp) = some (bv (BitVec.ofNat 32 (loadBytes σ.mem (memAddr σ base disp) 4)) false) :=
  readOpnd_mem σ base 4 disp
theorem readOpnd_mem64 {n} (σ : State n) (base : Nat) (disp : Int) :
    readOpnd σ (.mem base 64 disp) = some (bv (BitVec.ofNat 64 (loadBytes σ.mem (memAddr σ base disp) 8)) false) :=
  readOpnd_mem σ base 8 disp

theorem fld_lt (w : BitVec 32) (lo len : Nat) : (fld w lo len).1 < 2 ^ len := (w.extractLsb' lo len).isLt

theorem shamt_rv32 (w : BitVec 32) : (fld w 20 5).fst % 4294967296 = shamt .rv32 w := by
  have := fld_lt w 20 5
  show (fld w 20 5).fst % 4294967296 = (fld w 20 5).fst
  omega
theorem shamt_rv64 (w : BitVec 32) : (fld w 20 6).fst % 18446744073709551616 = shamt .rv64 w := by
  have := fld_lt w 20 6
  show (fld w 20 6).fst % 18446744073709551616 = (fld w 20 6).fst
  omega
theorem shamtW_rv64 (w : BitVec 32) : (fld w 20 5).fst % 18446744073709551616 = shamtW w := by
  have := fld_lt w 20 5
  show (fld w 20 5).fst % 18446744073709551616 = (fld w 20 5).fst
  omega

theorem ofInt_immU' (n : Nat) (w : BitVec 32) :
    BitVec.ofInt n ((fld w 12 20).sint * 4096) = immU n w := ofInt_immU n w
theorem ofInt_immU32' (w : BitVec 32) :
    BitVec.ofInt 32 (((fld w 12 20).1 : Int) * 4096) = immU 32 w := by
  have := ofInt_immU32 w
  rw [Int.natCast_mul] at this
  exact this

theorem ite_bv_bool2bv (n : Nat) (c : Bool) (sf : Bool) :
    (if c = true then bv (1#n) sf else bv (0#n) sf) = bv (bool2bv n c) sf := by
  cases c <;> simp [bool2bv]

theorem and_31 (x : Nat) : x &&& 31 = x % 32 := Nat.and_two_pow_sub_one_eq_mod x 5
theorem and_63 (x : Nat) : x &&& 63 = x % 64 := Nat.and_two_pow_sub_one_eq_mod x 6

theorem extract0_eq_lo32 {n} (x : BitVec n) : x.extractLsb' 0 32 = lo32 x := by
  apply BitVec.eq_of_toNat_eq
  simp [lo32, BitVec.extractLsb'_toNat]

theorem lo32_immI64 (w : BitVec 32) : lo32 (immI 64 w) = immI 32 w := by
  apply BitVec.eq_of_toNat_eq
  simp only [lo32, immI, BitVec.toNat_setWidth, BitVec.toNat_signExtend, BitVec.msb_eq_decide,
    BitVec.extractLsb'_toNat]
  have := w.isLt
  split <;> omega

/-- evaluation of an expression of the `expected` table to a `BitVec` term -/
macro "rv_eval" : tactic => `(tactic|
  simp [Isa.xlen, Isa.shBits, operands, accessBits, evalE, readOpnd_reg, readOpnd_cstOf, readOpnd_mem8, readOpnd_mem16,
        readOpnd_mem32, readOpnd_mem64, memAddr, mkCst_bv, mk_eq_bv, setIf, w32, tstV_bit, sextV_bv, zextV_bv,
        slcV_bv, sextV_bv_same, zextV_bv_same, ite_bv_bool2bv, ofInt_immI, ofInt_immS, ofInt_immB, ofInt_immJ,
        ofInt_immU', ofInt_immU32', and_31, and_63, shamt_rv32, shamt_rv64, shamtW_rv64, extract0_eq_lo32, lo32_immI64])

theorem storeBytes_mod1 {n} (mem : BitVec n → BitVec 8) (a : BitVec n) (v : Nat) :
    storeBytes mem a (v % 256) 1 = storeBytes mem a v 1 := storeBytes_mod mem a v 1
theorem storeBytes_mod2 {n} (mem : BitVec n → BitVec 8) (a : BitVec n) (v : Nat) :
    storeBytes mem a (v % 65536) 2 = storeBytes mem a v 2 := storeBytes_mod mem a v 2
theorem storeBytes_mod4 {n} (mem : BitVec n → BitVec 8) (a : BitVec n) (v : Nat) :
    storeBytes mem a (v % 4294967296) 4 = storeBytes mem a v 4 := storeBytes_mod mem a v 4

theorem ofInt_neg2 (n : Nat) : BitVec.ofInt n (-2) = ~~~1#n := by
  have : (-2 : Int) = Int.negSucc 1 := rfl
  rw [this, BitVec.ofInt_negSucc_eq_not_ofNat]

/-- whole-function evaluation for the few functions that are not of one of the standard shapes -/
macro "rv_run" : tactic => `(tactic|
  simp [semIdeal, expected, exec, execAll, execStmt, exec_npc, npc, writeLoc_reg_bv, writeLoc_pc_bv, set_withPc,
        operands, evalE, readOpnd_reg, readOpnd_cstOf, mkCst_bv, mk_eq_bv,
        ofInt_immI, ofInt_immJ, ofInt_immU', ofInt_immU32', ofInt_neg2])

/-! ### one theorem per base mnemonic: the expected DSL term means what the manual says -/
section
variable (isa : Isa) (w : BitVec 32) (σ : State isa.xlen)

theorem ok_LUI : semIdeal (expected isa .LUI) (operands isa .LUI w) σ = some (exec isa .LUI w σ) := by
  revert σ; cases isa <;> intro σ <;> exact semIdeal_wr _ rfl (by rv_eval)
theorem ok_AUIPC : semIdeal (expected isa .AUIPC) (operands isa .AUIPC w) σ = some (exec isa .AUIPC w σ) := by
  revert σ; cases isa <;> intro σ <;> by_cases h : fRd w = 0 <;> rv_run <;> simp [h]
theorem ok_JAL : semIdeal (expected isa .JAL) (operands isa .JAL w) σ = some (exec isa .JAL w σ) := by
  by_cases h : fRd w = 0 <;> rv_run <;> simp [h]
theorem ok_JALR : semIdeal (expected isa .JALR) (operands isa .JALR w) σ = some (exec isa .JALR w σ) := by
  by_cases h : fRd w = 0 <;> rv_run <;> simp [h, writeLoc_pc_bv]

theorem ok_BEQ : semIdeal (expected isa .BEQ) (operands isa .BEQ w) σ = some (exec isa .BEQ w σ) :=
  semIdeal_branch _ (immB _ w) (by rv_eval) (by rv_eval)
theorem ok_BNE : semIdeal (expected isa .BNE) (operands isa .BNE w) σ = some (exec isa .BNE w σ) :=
  semIdeal_branch _ (immB _ w) (by rv_eval) (by rv_eval)
theorem ok_BLT : semIdeal (expected isa .BLT) (operands isa .BLT w) σ = some (exec isa .BLT w σ) :=
  semIdeal_branch _ (immB _ w) (by rv_eval) (by rv_eval)
theorem ok_BGE : semIdeal (expected isa .BGE) (operands isa .BGE w) σ = some (exec isa .BGE w σ) :=
  semIdeal_branch _ (immB _ w) (by rv_eval) (by rv_eval)
theorem ok_BLTU : semIdeal (expected isa .BLTU) (operands isa .BLTU w) σ = some (exec isa .BLTU w σ) :=
  semIdeal_branch _ (immB _ w) (by rv_eval) (by rv_eval)
theorem ok_BGEU : semIdeal (expected isa .BGEU) (operands isa .BGEU w) σ = some (exec isa .BGEU w σ) :=
  semIdeal_branch _ (immB _ w) (by rv_eval) (by rv_eval)

theorem ok_LB : semIdeal (expected isa .LB) (operands isa .LB w) σ = some (exec isa .LB w σ) := by
  revert σ; cases isa <;> intro σ <;> exact semIdeal_ld _ rfl (by rv_eval)
theorem ok_LH : semIdeal (expected isa .LH) (operands isa .LH w) σ = some (exec isa .LH w σ) := by
  revert σ; cases isa <;> intro σ <;> exact semIdeal_ld _ rfl (by rv_eval)
theorem ok_LW : semIdeal (expected isa .LW) (operands isa .LW w) σ = some (exec isa .LW w σ) := by
  revert σ; cases isa <;> intro σ <;> exact semIdeal_ld _ rfl (by rv_eval)
theorem ok_LBU : semIdeal (expected isa .LBU) (operands isa .LBU w) σ = some (exec isa .LBU w σ) := by
  revert σ; cases isa <;> intro σ <;> exact semIdeal_ld _ rfl (by rv_eval)
theorem ok_LHU : semIdeal (expected isa .LHU) (operands isa .LHU w) σ = some (exec isa .LHU w σ) := by
  revert σ; cases isa <;> intro σ <;> exact semIdeal_ld _ rfl (by rv_eval)

theorem ok_SB : semIdeal (expected isa .SB) (operands isa .SB w) σ = some (exec isa .SB w σ) := by
  revert σ; cases isa <;> intro σ <;>
  · refine (semIdeal_st (k := 1) ((σ.get (fRs2 w)).extractLsb' 0 (8 * 1)) rfl (by rv_eval)).trans ?_
    simp [exec, memAddr, ofInt_immS, storeBytes_mod1]
theorem ok_SH : semIdeal (expected isa .SH) (operands isa .SH w) σ = some (exec isa .SH w σ) := by
  revert σ; cases isa <;> intro σ <;>
  · refine (semIdeal_st (k := 2) ((σ.get (fRs2 w)).extractLsb' 0 (8 * 2)) rfl (by rv_eval)).trans ?_
    simp [exec, memAddr, ofInt_immS, storeBytes_mod2]
theorem ok_SW : semIdeal (expected isa .SW) (operands isa .SW w) σ = some (exec isa .SW w σ) := by
  revert σ; cases isa <;> intro σ
  · refine (semIdeal_st (k := 4) (σ.get (fRs2 w)) rfl (by rv_eval)).trans ?_
    simp [exec, memAddr, ofInt_immS]
  · refine (semIdeal_st (k := 4) ((σ.get (fRs2 w)).extractLsb' 0 (8 * 4)) rfl (by rv_eval)).trans ?_
    simp [exec, memAddr, ofInt_immS, storeBytes_mod4]

theorem ok_ADDI : semIdeal (expected isa .ADDI) (operands isa .ADDI w) σ = some (exec isa .ADDI w σ) :=
  semIdeal_wr _ rfl (by rv_eval)
theorem ok_SLTI : semIdeal (expected isa .SLTI) (operands isa .SLTI w) σ = some (exec isa .SLTI w σ) :=
  semIdeal_wr _ rfl (by rv_eval)
theorem ok_SLTIU : semIdeal (expected isa .SLTIU) (operands isa .SLTIU w) σ = some (exec isa .SLTIU w σ) :=
  semIdeal_wr _ rfl (by rv_eval)
theorem ok_XORI : semIdeal (expected isa .XORI) (operands isa .XORI w) σ = some (exec isa .XORI w σ) :=
  semIdeal_wr _ rfl (by rv_eval)
theorem ok_ORI : semIdeal (expected isa .ORI) (operands isa .ORI w) σ = some (exec isa .ORI w σ) :=
  semIdeal_wr _ rfl (by rv_eval)
theorem ok_ANDI : semIdeal (expected isa .ANDI) (operands isa .ANDI w) σ = some (exec isa .ANDI w σ) :=
  semIdeal_wr _ rfl (by rv_eval)
theorem ok_SLLI : semIdeal (expected isa .SLLI) (operands isa .SLLI w) σ = some (exec isa .SLLI w σ) := by
  revert σ; cases isa <;> intro σ <;> exact semIdeal_wr _ rfl (by rv_eval)
theorem ok_SRLI : semIdeal (expected isa .SRLI) (operands isa .SRLI w) σ = some (exec isa .SRLI w σ) := by
  revert σ; cases isa <;> intro σ <;> exact semIdeal_wr _ rfl (by rv_eval)
theorem ok_SRAI : semIdeal (expected isa .SRAI) (operands isa .SRAI w) σ = some (exec isa .SRAI w σ) := by
  revert σ; cases isa <;> intro σ <;> exact semIdeal_wr _ rfl (by rv_eval)

theorem ok_ADD : semIdeal (expected isa .ADD) (operands isa .ADD w) σ = some (exec isa .ADD w σ) :=
  semIdeal_wr _ rfl (by rv_eval)
theorem ok_SUB : semIdeal (expected isa .SUB) (operands isa .SUB w) σ = some (exec isa .SUB w σ) :=
  semIdeal_wr _ rfl (by rv_eval)
theorem ok_SLL : semIdeal (expected isa .SLL) (operands isa .SLL w) σ = some (exec isa .SLL w σ) := by
  revert σ; cases isa <;> intro σ <;> exact semIdeal_wr _ rfl (by rv_eval)
theorem ok_SLT : semIdeal (expected isa .SLT) (operands isa .SLT w) σ = some (exec isa .SLT w σ) :=
  semIdeal_wr _ rfl (by rv_eval)
theorem ok_SLTU : semIdeal (expected isa .SLTU) (operands isa .SLTU w) σ = some (exec isa .SLTU w σ) :=
  semIdeal_wr _ rfl (by rv_eval)
theorem ok_XOR : semIdeal (expected isa .XOR) (operands isa .XOR w) σ = some (exec isa .XOR w σ) :=
  semIdeal_wr _ rfl (by rv_eval)
theorem ok_SRL : semIdeal (expected isa .SRL) (operands isa .SRL w) σ = some (exec isa .SRL w σ) := by
  revert σ; cases isa <;> intro σ <;> exact semIdeal_wr _ rfl (by rv_eval)
theorem ok_SRA : semIdeal (expected isa .SRA) (operands isa .SRA w) σ = some (exec isa .SRA w σ) := by
  revert σ; cases isa <;> intro σ <;> exact semIdeal_wr _ rfl (by rv_eval)
theorem ok_OR : semIdeal (expected isa .OR) (operands isa .OR w) σ = some (exec isa .OR w σ) :=
  semIdeal_wr _ rfl (by rv_eval)
theorem ok_AND : semIdeal (expected isa .AND) (operands isa .AND w) σ = some (exec isa .AND w σ) :=
  semIdeal_wr _ rfl (by rv_eval)

theorem ok_FENCE : semIdeal (expected isa .FENCE) (operands isa .FENCE w) σ = some (exec isa .FENCE w σ) := by
  simp [semIdeal, expected, exec, execAll, exec_npc]
theorem ok_FENCE_I : semIdeal (expected isa .FENCE_I) (operands isa .FENCE_I w) σ = some (exec isa .FENCE_I w σ) := by
  simp [semIdeal, expected, exec, execAll, exec_npc]
theorem ok_EBREAK : semIdeal (expected isa .EBREAK) (operands isa .EBREAK w) σ = some (exec isa .EBREAK w σ) := by
  simp [semIdeal, expected, exec, execAll]
end

/-! RV64I only -/
section
variable (w : BitVec 32) (σ : State Isa.rv64.xlen)
theorem ok_LWU : semIdeal (expected .rv64 .LWU) (operands .rv64 .LWU w) σ = some (exec .rv64 .LWU w σ) :=
  semIdeal_ld _ rfl (by rv_eval)
theorem ok_LD : semIdeal (expected .rv64 .LD) (operands .rv64 .LD w) σ = some (exec .rv64 .LD w σ) :=
  semIdeal_ld _ rfl (by rv_eval)
theorem ok_SD : semIdeal (expected .rv64 .SD) (operands .rv64 .SD w) σ = some (exec .rv64 .SD w σ) := by
  refine (semIdeal_st (k := 8) (σ.get (fRs2 w)) rfl (by rv_eval)).trans ?_
  simp [exec, memAddr, ofInt_immS]
theorem ok_ADDIW : semIdeal (expected .rv64 .ADDIW) (operands .rv64 .ADDIW w) σ = some (exec .rv64 .ADDIW w σ) :=
  semIdeal_wr _ rfl (by rv_eval)
theorem ok_SLLIW : semIdeal (expected .rv64 .SLLIW) (operands .rv64 .SLLIW w) σ = some (exec .rv64 .SLLIW w σ) :=
  semIdeal_wr _ rfl (by rv_eval)
theorem ok_SRLIW : semIdeal (expected .rv64 .SRLIW) (operands .rv64 .SRLIW w) σ = some (exec .rv64 .SRLIW w σ) :=
  semIdeal_wr _ rfl (by rv_eval)
theorem ok_SRAIW : semIdeal (expected .rv64 .SRAIW) (operands .rv64 .SRAIW w) σ = some (exec .rv64 .SRAIW w σ) :=
  semIdeal_wr _ rfl (by rv_eval)
theorem ok_ADDW : semIdeal (expected .rv64 .ADDW) (operands .rv64 .ADDW w) σ = some (exec .rv64 .ADDW w σ) :=
  semIdeal_wr _ rfl (by rv_eval)
theorem ok_SUBW : semIdeal (expected .rv64 .SUBW) (operands .rv64 .SUBW w) σ = some (exec .rv64 .SUBW w σ) :=
  semIdeal_wr _ rfl (by rv_eval)
theorem ok_SLLW : semIdeal (expected .rv64 .SLLW) (operands .rv64 .SLLW w) σ = some (exec .rv64 .SLLW w σ) :=
  semIdeal_wr _ rfl (by rv_eval)
theorem ok_SRLW : semIdeal (expected .rv64 .SRLW) (operands .rv64 .SRLW w) σ = some (exec .rv64 .SRLW w σ) :=
  semIdeal_wr _ rfl (by rv_eval)
theorem ok_SRAW : semIdeal (expected .rv64 .SRAW) (operands .rv64 .SRAW w) σ = some (exec .rv64 .SRAW w σ) :=
  semIdeal_wr _ rfl (by rv_eval)
end

end Amoco.Rv

/-! # x86 flag helper formulas (Amoco.Model.Flags) -/

namespace Amoco.Flags

theorem cin_toNat (n : Nat) (c : Bool) (hn : 0 < n) : (cin n c).toNat = c.toNat := by
  unfold cin
  cases c
  · simp
  · simp only [BitVec.ofBool_true, BitVec.toNat_setWidth, Bool.toNat_true]
    have : 1 < 2 ^ n := Nat.one_lt_two_pow (by omega)
    simp [Nat.mod_eq_of_lt this]

theorem add3_mod (X Y C k : Nat) (hx : X < k) (hy : Y < k) (hc : C ≤ 1) :
    ((X + Y) % k + C) % k = if X + Y + C < k then X + Y + C else X + Y + C - k := by
  have e : ((X + Y) % k + C) % k = (X + Y + C) % k := by
    rw [Nat.add_mod ((X + Y) % k) C k, Nat.mod_mod, ← Nat.add_mod]
  rw [e]
  split
  · exact Nat.mod_eq_of_lt ‹_›
  · rw [Nat.mod_eq_sub_mod (by omega)]
    exact Nat.mod_eq_of_lt (by omega)

theorem sub3_mod (X Y C k : Nat) (hx : X < k) (hy : Y < k) (hc : C ≤ 1) (hk : 1 < k):
    ((k - C + ((k - Y + X) % k)) % k) = if Y + C ≤ X then X - Y - C else X + k - Y - C := by
  have e : (k - C + (k - Y + X) % k) % k = (k - C + (k - Y + X)) % k := by
    rw [Nat.add_mod (k - C) ((k - Y + X) % k) k, Nat.mod_mod, ← Nat.add_mod]
  rw [e]
  split
  · have : k - C + (k - Y + X) = (X - Y - C) + k * 2 := by omega
    rw [this, Nat.add_mul_mod_self_left]
    exact Nat.mod_eq_of_lt (by omega)
  · have : k - C + (k - Y + X) = (X + k - Y - C) + k * 1 := by omega
    rw [this, Nat.add_mul_mod_self_left]
    exact Nat.mod_eq_of_lt (by omega)

/-- CF of an addition: the unsigned sum does not fit -/
theorem awc_carry {m : Nat} (x y : BitVec (m + 1)) (c : Bool) :
    (addWithCarry x y c).carry = decide (2 ^ (m + 1) ≤ x.toNat + y.toNat + c.toNat) := by
  have hx := x.isLt
  have hy := y.isLt
  have hc : c.toNat ≤ 1 := by cases c <;> simp
  have hR := add3_mod x.toNat y.toNat c.toNat (2 ^ (m + 1)) hx hy hc
  have hpow : 2 ^ (m + 1) = 2 * 2 ^ m := by rw [Nat.pow_succ]; omega
  simp only [addWithCarry, sign, BitVec.msb_eq_decide, Nat.add_sub_cancel, BitVec.toNat_add,
    cin_toNat (m + 1) c (by omega)]
  generalize (x.toNat + y.toNat) % 2 ^ (m + 1) + c.toNat = T at hR ⊢
  generalize T % 2 ^ (m + 1) = R at hR ⊢
  generalize x.toNat = X at *
  generalize y.toNat = Y at *
  generalize c.toNat = C at *
  generalize 2 ^ m = h at *
  generalize 2 ^ (m + 1) = k at *
  subst hpow
  by_cases h3 : X + Y + C < 2 * h <;> simp only [h3, if_true, if_false] at hR <;>
  by_cases h1 : h ≤ X <;> by_cases h2 : h ≤ Y <;> by_cases h4 : h ≤ R <;>
  simp [h1, h2, h4] <;> omega
end Amoco.Flags

namespace Amoco.Flags
/-- finish a goal `b = decide P` where `b` is a closed Boolean term, by linear arithmetic -/
macro "bool_omega" : tactic => `(tactic|
  (simp only [decide_true, decide_false, if_true, if_false, Bool.xor_self, Bool.true_xor, Bool.xor_true, Bool.false_xor,
      Bool.xor_false, Bool.not_true, Bool.not_false, Bool.and_true, Bool.and_false, Bool.true_and, Bool.false_and,
      Bool.or_true, Bool.or_false, Bool.true_or, Bool.false_or, Bool.and_self, Bool.or_self]
   first
   | (rw [eq_comm, decide_eq_true_iff]; omega)
   | (rw [eq_comm, decide_eq_false_iff_not]; omega)))

/-- OF of an addition: the signed sum does not fit in the width -/
theorem awc_overflow {m : Nat} (x y : BitVec (m + 1)) (c : Bool) :
    (addWithCarry x y c).overflow =
      decide (x.toInt + y.toInt + (c.toNat : Int) < -((2 ^ m : Nat) : Int) ∨ ((2 ^ m : Nat) : Int) ≤ x.toInt + y.toInt + (c.toNat : Int)) := by
  have hx := x.isLt
  have hy := y.isLt
  have hc : c.toNat ≤ 1 := by cases c <;> simp
  have hR := add3_mod x.toNat y.toNat c.toNat (2 ^ (m + 1)) hx hy hc
  have hpow : 2 ^ (m + 1) = 2 * 2 ^ m := by rw [Nat.pow_succ]; omega
  simp only [addWithCarry, sign, BitVec.msb_eq_decide, Nat.add_sub_cancel, BitVec.toNat_add,
    cin_toNat (m + 1) c (by omega), BitVec.toInt_eq_toNat_cond]
  generalize (x.toNat + y.toNat) % 2 ^ (m + 1) + c.toNat = T at hR ⊢
  generalize T % 2 ^ (m + 1) = R at hR ⊢
  by_cases h3 : x.toNat + y.toNat + c.toNat < 2 ^ (m + 1) <;> simp only [h3, if_true, if_false] at hR <;>
  by_cases h1 : 2 ^ m ≤ x.toNat <;> by_cases h2 : 2 ^ m ≤ y.toNat <;> by_cases h4 : 2 ^ m ≤ R <;>
  by_cases i1 : 2 * x.toNat < 2 ^ (m + 1) <;> by_cases i2 : 2 * y.toNat < 2 ^ (m + 1) <;> (try omega) <;>
  simp only [h1, h2, h4, i1, i2] <;> bool_omega

/-- CF of a subtraction: a borrow is needed -/
theorem swb_carry {m : Nat} (x y : BitVec (m + 1)) (c : Bool) :
    (subWithBorrow x y c).carry = decide (x.toNat < y.toNat + c.toNat) := by
  have hx := x.isLt
  have hy := y.isLt
  have hc : c.toNat ≤ 1 := by cases c <;> simp
  have hpow : 2 ^ (m + 1) = 2 * 2 ^ m := by rw [Nat.pow_succ]; omega
  have hk : 1 < 2 ^ (m + 1) := Nat.one_lt_two_pow (by omega)
  have hR := sub3_mod x.toNat y.toNat c.toNat (2 ^ (m + 1)) hx hy hc hk
  simp only [subWithBorrow, sign, BitVec.msb_eq_decide, Nat.add_sub_cancel, BitVec.toNat_sub,
    cin_toNat (m + 1) c (by omega)]
  generalize (2 ^ (m + 1) - c.toNat + (2 ^ (m + 1) - y.toNat + x.toNat) % 2 ^ (m + 1)) % 2 ^ (m + 1) = R at hR ⊢
  by_cases h3 : y.toNat + c.toNat ≤ x.toNat <;> simp only [h3, if_true, if_false] at hR <;>
  by_cases h1 : 2 ^ m ≤ x.toNat <;> by_cases h2 : 2 ^ m ≤ y.toNat <;> by_cases h4 : 2 ^ m ≤ R <;> (try omega) <;>
  simp only [h1, h2, h4] <;> bool_omega

/-- OF of a subtraction: the signed difference does not fit in the width -/
theorem swb_overflow {m : Nat} (x y : BitVec (m + 1)) (c : Bool) :
    (subWithBorrow x y c).overflow =
      decide (x.toInt - y.toInt - (c.toNat : Int) < -((2 ^ m : Nat) : Int) ∨ ((2 ^ m : Nat) : Int) ≤ x.toInt - y.toInt - (c.toNat : Int)) := by
  have hx := x.isLt
  have hy := y.isLt
  have hc : c.toNat ≤ 1 := by cases c <;> simp
  have hpow : 2 ^ (m + 1) = 2 * 2 ^ m := by rw [Nat.pow_succ]; omega
  have hk : 1 < 2 ^ (m + 1) := Nat.one_lt_two_pow (by omega)
  have hR := sub3_mod x.toNat y.toNat c.toNat (2 ^ (m + 1)) hx hy hc hk
  simp only [subWithBorrow, sign, BitVec.msb_eq_decide, Nat.add_sub_cancel, BitVec.toNat_sub,
    cin_toNat (m + 1) c (by omega), BitVec.toInt_eq_toNat_cond]
  generalize (2 ^ (m + 1) - c.toNat + (2 ^ (m + 1) - y.toNat + x.toNat) % 2 ^ (m + 1)) % 2 ^ (m + 1) = R at hR ⊢
  by_cases h3 : y.toNat + c.toNat ≤ x.toNat <;> simp only [h3, if_true, if_false] at hR <;>
  by_cases h1 : 2 ^ m ≤ x.toNat <;> by_cases h2 : 2 ^ m ≤ y.toNat <;> by_cases h4 : 2 ^ m ≤ R <;>
  by_cases i1 : 2 * x.toNat < 2 ^ (m + 1) <;> by_cases i2 : 2 * y.toNat < 2 ^ (m + 1) <;> (try omega) <;>
  simp only [h1, h2, h4, i1, i2] <;> bool_omega

/-- the result is the sum / difference modulo 2^n -/
theorem awc_res {n : Nat} (x y : BitVec n) (c : Bool) (hn : 0 < n) :
    (addWithCarry x y c).res.toNat = (x.toNat + y.toNat + c.toNat) % 2 ^ n := by
  simp [addWithCarry, BitVec.toNat_add, cin_toNat n c hn]

theorem halfcarry_eq {n : Nat} (x y : BitVec n) (c : Bool) :
    halfcarry x y c = decide (16 ≤ x.toNat % 16 + y.toNat % 16 + c.toNat) := by
  unfold halfcarry
  rw [awc_carry (m := 3)]
  simp [BitVec.extractLsb'_toNat]

theorem halfborrow_eq {n : Nat} (x y : BitVec n) (c : Bool) :
    halfborrow x y c = decide (x.toNat % 16 < y.toNat % 16 + c.toNat) := by
  unfold halfborrow
  rw [swb_carry (m := 3)]
  simp [BitVec.extractLsb'_toNat]

/-- facts about `a - b` used by the condition-code theorems -/
theorem cmp_core {m : Nat} (a b : BitVec (m + 1)) :
    (cmpFlags a b).cf = a.ult b ∧ (cmpFlags a b).zf = (a == b) ∧
    ((cmpFlags a b).sf != (cmpFlags a b).of) = a.slt b := by
  have hx := a.isLt
  have hy := b.isLt
  have hpow : 2 ^ (m + 1) = 2 * 2 ^ m := by rw [Nat.pow_succ]; omega
  have hk : 1 < 2 ^ (m + 1) := Nat.one_lt_two_pow (by omega)
  have hR := sub3_mod a.toNat b.toNat 0 (2 ^ (m + 1)) hx hy (by omega) hk
  have hres : (subWithBorrow a b false).res.toNat =
      if b.toNat + 0 ≤ a.toNat then a.toNat - b.toNat - 0 else a.toNat + 2 ^ (m + 1) - b.toNat - 0 := by
    simp only [subWithBorrow, BitVec.toNat_sub, cin_toNat (m + 1) false (by omega), Bool.toNat_false]
    exact hR
  have hz : (0 : BitVec (m + 1)).toNat = 0 := by simp
  refine ⟨?_, ?_, ?_⟩
  · show (subWithBorrow a b false).carry = _
    rw [swb_carry, BitVec.ult_eq_decide]; simp
  · show ((subWithBorrow a b false).res == 0) = _
    rw [Bool.eq_iff_iff]
    simp only [beq_iff_eq, ← BitVec.toNat_inj, hres, hz]
    split <;> omega
  · show ((subWithBorrow a b false).res.msb != (subWithBorrow a b false).overflow) = _
    rw [swb_overflow, BitVec.slt_eq_decide, BitVec.msb_eq_decide]
    generalize (subWithBorrow a b false).res.toNat = R at hres ⊢
    simp only [BitVec.toInt_eq_toNat_cond, Bool.toNat_false, Nat.add_sub_cancel]
    by_cases h3 : b.toNat + 0 ≤ a.toNat <;> simp only [h3, if_true, if_false] at hres <;>
    by_cases i1 : 2 * a.toNat < 2 ^ (m + 1) <;> by_cases i2 : 2 * b.toNat < 2 ^ (m + 1) <;>
    simp only [i1, i2, if_true, if_false] <;>
    rw [Bool.eq_iff_iff] <;>
    simp only [bne_iff_ne, ne_eq, decide_eq_true_eq, decide_eq_decide] <;>
    omega

theorem ule_eq {n} (a b : BitVec n) : a.ule b = (a.ult b || a == b) := by
  rw [Bool.eq_iff_iff]
  simp only [BitVec.ule_eq_decide, BitVec.ult_eq_decide, Bool.or_eq_true, decide_eq_true_eq, beq_iff_eq, ← BitVec.toNat_inj]
  omega

theorem sle_eq {n} (a b : BitVec n) : a.sle b = (a.slt b || a == b) := by
  rw [Bool.eq_iff_iff]
  simp only [BitVec.sle_eq_decide, BitVec.slt_eq_decide, Bool.or_eq_true, decide_eq_true_eq, beq_iff_eq, ← BitVec.toInt_inj]
  omega

/-- **Condition codes after CMP are the order relations** (all widths ≥ 1, all operands). -/
theorem cc_after_cmp {m : Nat} (a b : BitVec (m + 1)) :
    cond 0x2 (cmpFlags a b) = a.ult b ∧ cond 0x3 (cmpFlags a b) = !(a.ult b) ∧
    cond 0x4 (cmpFlags a b) = (a == b) ∧ cond 0x5 (cmpFlags a b) = (a != b) ∧
    cond 0x6 (cmpFlags a b) = a.ule b ∧ cond 0x7 (cmpFlags a b) = !(a.ule b) ∧
    cond 0xC (cmpFlags a b) = a.slt b ∧ cond 0xD (cmpFlags a b) = !(a.slt b) ∧
    cond 0xE (cmpFlags a b) = a.sle b ∧ cond 0xF (cmpFlags a b) = !(a.sle b) := by
  obtain ⟨h1, h2, h3⟩ := cmp_core a b
  have h4 : ((cmpFlags a b).sf == (cmpFlags a b).of) = !(a.slt b) := by
    rw [← h3]; cases (cmpFlags a b).sf <;> cases (cmpFlags a b).of <;> rfl
  simp only [cond, h1, h2, h3, h4, ule_eq, sle_eq]
  unfold bne
  generalize a.ult b = u
  generalize a.slt b = s
  generalize (a == b) = e
  cases u <;> cases s <;> cases e <;> decide
end Amoco.Flags

namespace Amoco.Flags
theorem parity8_even : ∀ x : BitVec 8, parity8With 0x9669#16 x = evenParity x := by decide
theorem parity8_6996_odd : ∀ x : BitVec 8, parity8With 0x6996#16 x = !evenParity x := by decide

theorem writeReg32_upper (old v : BitVec 64) : (writeReg old 32 v).extractLsb' 32 32 = 0#32 := by
  apply BitVec.eq_of_toNat_eq
  simp [writeReg, BitVec.extractLsb'_toNat, Nat.shiftRight_eq_div_pow]
  omega
theorem writeReg32_lower (old v : BitVec 64) : (writeReg old 32 v).extractLsb' 0 32 = v.extractLsb' 0 32 := by
  apply BitVec.eq_of_toNat_eq
  simp [writeReg, BitVec.extractLsb'_toNat]
end Amoco.Flags
