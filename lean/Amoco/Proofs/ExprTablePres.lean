/-
  Amoco.Proofs.ExprTablePres — a property of the expressions in a part table that holds of every constant and
  is kept by slicing is kept by `setPart` (assignment + cut), `restruct` (on tables without undefined parts)
  and the `__getitem__` loop.  Used with `Plain` by the value-soundness induction.
-/
import Amoco.Proofs.ExprSoundBase

namespace Amoco.Expr

variable (Q : Expr → Prop)

theorem cutLoop_pres (gi : Expr → Nat → Nat → R Expr) (hgi : ∀ x a b r, Q x → gi x a b = .ok r → Q r) (sta sto : Nat) :
    ∀ (todo ps ps' : List Part), (∀ p ∈ todo, Q p.2.2) → (∀ p ∈ ps, Q p.2.2) →
      cutLoop gi sta sto todo ps = .ok ps' → ∀ p ∈ ps', Q p.2.2 := by
  intro todo
  induction todo with
  | nil => intro ps ps' _ hp h; simp only [cutLoop] at h; cases h; exact hp
  | cons q tl ih =>
    intro ps ps' ht hp h
    obtain ⟨lo, hi, nv⟩ := q
    have hnv : Q nv := ht (lo, hi, nv) List.mem_cons_self
    simp only [cutLoop] at h
    have h1 : ∀ ps2, cutHead gi sta lo nv (popKey lo hi ps) = .ok ps2 → ∀ p ∈ ps2, Q p.2.2 := by
      intro ps2 h2
      unfold cutHead at h2
      split at h2
      · split at h2
        · rename_i hh hgh
          cases h2
          intro p hm
          rcases mem_assignKey hm with hm | rfl
          · exact hp p (mem_popKey hm)
          · exact hgi _ _ _ _ hnv hgh
        · cases h2
      · cases h2; intro p hm; exact hp p (mem_popKey hm)
    cases hc1 : cutHead gi sta lo nv (popKey lo hi ps) with
    | error e => rw [hc1] at h; cases h
    | ok ps2 =>
      rw [hc1] at h; simp only at h
      have hq2 := h1 ps2 hc1
      cases hc2 : cutTail gi sto lo hi nv ps2 with
      | error e => rw [hc2] at h; cases h
      | ok ps3 =>
        rw [hc2] at h; simp only at h
        have hq3 : ∀ p ∈ ps3, Q p.2.2 := by
          unfold cutTail at hc2
          split at hc2
          · split at hc2
            · rename_i hh hgh
              cases hc2
              intro p hm
              rcases mem_assignKey hm with hm | rfl
              · exact hq2 p hm
              · exact hgi _ _ _ _ hnv hgh
            · cases hc2
          · cases hc2; exact hq2
        exact ih ps3 ps' (fun p hm => ht p (List.mem_cons_of_mem _ hm)) hq3 h

theorem setPart_pres (gi : Expr → Nat → Nat → R Expr) (hgi : ∀ x a b r, Q x → gi x a b = .ok r → Q r)
    (sta sto : Nat) (v : Expr) (parts ps' : List Part) (hv : Q v) (hp : ∀ p ∈ parts, Q p.2.2)
    (h : setPart gi sta sto v parts = .ok ps') : ∀ p ∈ ps', Q p.2.2 := by
  unfold setPart at h
  split at h
  · cases h
    intro p hm
    rcases mem_assignKey hm with hm | rfl
    · exact hp p hm
    · exact hv
  · refine cutLoop_pres Q gi hgi sta sto _ _ ps' ?_ ?_ h
    · intro p hm; exact hp p (mem_overlapping hm).1
    · intro p hm
      rcases List.mem_append.mp hm with hm | hm
      · exact hp p hm
      · simp only [List.mem_singleton] at hm; subst hm; exact hv

theorem restructN_pres (hc : ∀ x s, Q (mkCst x s)) (hdef : ∀ e, Q e → e.isDef = true) (n : Nat) :
    ∀ (k : Nat) (ps : List Part), Disj n ps → (∀ p ∈ ps, WF p.2.2) → (∀ p ∈ ps, Q p.2.2) →
      ∀ p ∈ restructN k ps, Q p.2.2 := by
  intro k
  induction k with
  | zero => intro ps _ _ hq; exact hq
  | succ k ih =>
    intro ps hd hw hq
    simp only [restructN]
    cases hf : restructFind (sortParts ps) with
    | none => exact hq
    | some t =>
      obtain ⟨A, B, m⟩ := t
      obtain ⟨alo, ahi, a⟩ := A
      obtain ⟨blo, bhi, b⟩ := B
      simp only
      obtain ⟨hd3, hw3, _, hm3, _, hA, _⟩ := restruct_step n ps alo ahi blo bhi a b m hd hw hf
      apply ih _ hd3 hw3
      intro p hp
      rcases hm3 p hp with h | rfl
      · exact hq p h
      · rcases restructFind_cases _ _ _ _ hf with ⟨av, as_, fa, bv, bs, fb, _, _, hm⟩ | ⟨hu, _⟩
        · subst hm; exact hc _ _
        · have := hdef _ (hq _ hA)
          simp only at hu this
          rw [hu] at this; cases this

theorem restruct_pres (hc : ∀ x s, Q (mkCst x s)) (hdef : ∀ e, Q e → e.isDef = true) (n : Nat) (ps : List Part)
    (hd : Disj n ps) (hw : ∀ p ∈ ps, WF p.2.2) (hq : ∀ p ∈ ps, Q p.2.2) : ∀ p ∈ restruct ps, Q p.2.2 :=
  restructN_pres Q hc hdef n ps.length ps hd hw hq

end Amoco.Expr
