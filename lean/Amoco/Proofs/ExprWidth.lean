/-
  Amoco.Proofs.ExprWidth — every function of the rewrite system returns a well-formed expression of the
  width its construction dictates (C12), by induction on the fuel over the whole mutual block.
-/
import Amoco.Proofs.ExprComp

namespace Amoco

open Expr

/-- postcondition: a successful result is well-formed and `s` bits wide -/
def Post (s : Nat) (r : R Expr) : Prop := ∀ e, r = .ok e → WF e ∧ e.size = s

theorem Post_error (s : Nat) (k : Err) : Post s (.error k) := by intro e h; cases h

theorem Post_ok {s : Nat} {e : Expr} (h1 : WF e) (h2 : e.size = s) : Post s (.ok e) := by
  intro e' h; cases h; exact ⟨h1, h2⟩

theorem Post_pure {s : Nat} {e : Expr} (h1 : WF e) (h2 : e.size = s) : Post s (pure e) := Post_ok h1 h2

theorem Post_bind {α : Type} {s : Nat} (x : R α) (f : α → R Expr) (h : ∀ a, x = .ok a → Post s (f a)) :
    Post s (x >>= f) := by
  intro e he
  cases x with
  | error k => cases he
  | ok a => exact h a rfl e he

theorem Post_of_eq {s t : Nat} {r : R Expr} (h : Post s r) (e : s = t) : Post t r := e ▸ h

namespace Expr

@[simp] theorem size_cst (v s : Nat) (f : Bool) : (cst v s f).size = s := rfl
@[simp] theorem size_reg (n : String) (s : Nat) (f : Bool) : (reg n s f).size = s := rfl
@[simp] theorem size_ext (n : String) (s : Nat) (f : Bool) : (ext n s f).size = s := rfl
@[simp] theorem size_slc (x : Expr) (p s : Nat) (f : Bool) (r : Option String) (k : Nat) : (slc x p s f r k).size = s := rfl
@[simp] theorem size_comp (s : Nat) (f : Bool) (ps : List Part) : (comp s f ps).size = s := rfl
@[simp] theorem size_tst (t l r : Expr) (s : Nat) (f : Bool) : (tst t l r s f).size = s := rfl
@[simp] theorem size_op (o : Op) (l r : Expr) (s : Nat) (f : Bool) (p : Nat) : (op o l r s f p).size = s := rfl
@[simp] theorem size_uop (o : Op) (r : Expr) (s : Nat) (f : Bool) (p : Nat) : (uop o r s f p).size = s := rfl
@[simp] theorem size_vec (l : List Expr) (s : Nat) (f : Bool) : (vec l s f).size = s := rfl
@[simp] theorem size_vecw (l : List Expr) (s : Nat) (f : Bool) : (vecw l s f).size = s := rfl
@[simp] theorem size_top (s : Nat) (f : Bool) : (top s f).size = s := rfl
@[simp] theorem size_mkTop (s : Nat) : (mkTop s).size = s := rfl
@[simp] theorem size_mkCst' (x : Int) (s : Nat) : (mkCst x s).size = s := rfl
@[simp] theorem size_bit0 : bit0.size = 1 := rfl
@[simp] theorem size_bit1 : bit1.size = 1 := rfl

theorem WF_setSf (f : Bool) (e : Expr) : WF (e.setSf f) ↔ WF e := by
  cases e <;> simp only [setSf, WF]

theorem WF_bit0 : WF bit0 := by simp [bit0, WF]
theorem WF_bit1 : WF bit1 := by simp [bit1, WF]
theorem WF_ofBool (b : Bool) : WF (ofBool b) := by cases b <;> simp [ofBool, WF]
theorem size_ofBool (b : Bool) : (ofBool b).size = 1 := rfl
theorem WF_mkTop {n : Nat} (h : 0 < n) : WF (mkTop n) := by simp [mkTop, WF, h]

theorem WF_size_pos (e : Expr) (h : WF e) : 0 < e.size := by
  cases e <;> simp only [WF] at h <;> first | exact h.1 | exact h | exact h.2.1

theorem WFList_iff (l : List Expr) (s : Nat) : WFList l s ↔ ∀ x ∈ l, WF x ∧ x.size = s := by
  induction l with
  | nil => simp [WFList]
  | cons x tl ih => simp only [WFList, ih, List.mem_cons, forall_eq_or_imp, and_assoc]

theorem mapM_spec {α β : Type} (f : α → R β) (P : α → Prop) (Q : β → Prop)
    (hf : ∀ a b, P a → f a = .ok b → Q b) :
    ∀ (l : List α) (l' : List β), (∀ a ∈ l, P a) → l.mapM f = .ok l' → (∀ b ∈ l', Q b) ∧ l'.length = l.length := by
  intro l
  induction l with
  | nil => intro l' _ h; simp [List.mapM_nil, pure, Except.pure] at h; subst h; simp
  | cons x tl ih =>
    intro l' hP h
    rw [List.mapM_cons] at h
    cases hx : f x with
    | error e => rw [hx] at h; cases h
    | ok y =>
      rw [hx] at h
      simp only [bind, Except.bind] at h
      cases ht : List.mapM f tl with
      | error e => rw [ht] at h; cases h
      | ok ys =>
        rw [ht] at h
        simp only [pure, Except.pure] at h
        cases h
        obtain ⟨h1, h2⟩ := ih ys (fun a ha => hP a (List.mem_cons_of_mem _ ha)) ht
        refine ⟨?_, by simp [h2]⟩
        intro b hb
        rcases List.mem_cons.mp hb with rfl | hb
        · exact hf x _ (hP x List.mem_cons_self) hx
        · exact h1 b hb

theorem foldl_max_eq (l : List Expr) (s m : Nat) (h : ∀ x ∈ l, x.size = s) (hm : m ≤ s) (hne : l ≠ []) :
    l.foldl (fun m e => max m e.size) m = s := by
  induction l generalizing m with
  | nil => exact absurd rfl hne
  | cons x tl ih =>
    simp only [List.foldl_cons]
    have hx := h x List.mem_cons_self
    by_cases ht : tl = []
    · subst ht; simp only [List.foldl_nil]; omega
    · exact ih (max m x.size) (fun y hy => h y (List.mem_cons_of_mem _ hy)) (by omega) ht

theorem mkVec_spec (l : List Expr) (s : Nat) (v : Expr) (hs : 0 < s) (hne : l ≠ [])
    (h : ∀ x ∈ l, WF x ∧ x.size = s) (hv : mkVec l = .ok v) : WF v ∧ v.size = s := by
  unfold mkVec at hv
  have hsz : l.foldl (fun m e => max m e.size) 0 = s := foldl_max_eq l s 0 (fun x hx => (h x hx).2) (by omega) hne
  simp only [hsz] at hv
  split at hv
  · cases hv
  · cases hv
    simp only [WF, size_vec]
    exact ⟨⟨hs, hne, (WFList_iff l s).mpr h⟩, trivial⟩

/-- the width an operator node is given by its constructor -/
def resSize (o : Op) (l : Expr) : Nat := if o.type = 4 then 1 else if o = Op.mul2 then 2 * l.size else l.size

theorem resSize_setSf (o : Op) (l : Expr) (f : Bool) : resSize o (l.setSf f) = resSize o l := by
  unfold resSize; rw [size_setSf]

theorem type_cases (o : Op) : o.type = 1 ∨ o.type = 2 ∨ o.type = 4 ∨ o.type = 8 := by
  cases o <;> simp [Op.type]

theorem mkOp_spec (o : Op) (l r e : Expr) (hl : WF l) (hr : WF r) (h4 : o.type = 4 → l.size = r.size)
    (h : mkOp o l r = .ok e) : WF e ∧ e.size = resSize o l := by
  unfold mkOp at h
  have hpos := WF_size_pos l hl
  by_cases hc : (decide (o.type < 4) && l.size != r.size) = true
  · simp only [hc, if_true] at h; cases h
  · simp only [hc] at h
    simp only [Bool.and_eq_true, decide_eq_true_eq, bne_iff_ne, ne_eq, not_and, Decidable.not_not] at hc
    cases h
    simp only [WF, size_op, resSize]
    rcases type_cases o with ht | ht | ht | ht
    · have := hc (by omega)
      simp only [ht]
      by_cases hm : o = Op.mul2
      · subst hm; simp [hl, hr, this]; omega
      · simp [hm, hl, hr, this]; omega
    · have := hc (by omega)
      have hne : o ≠ Op.mul2 := by intro h; subst h; simp [Op.type] at ht
      simp [ht, hne, hl, hr, this]; omega
    · simp [ht, hl, hr, h4 ht]
    · have hne : o ≠ Op.mul2 := by intro h; subst h; simp [Op.type] at ht
      simp [ht, hne, hl, hr, hpos]

theorem WF_mkCst' (x : Int) (s : Nat) (hs : 0 < s) : WF (mkCst x s) := WF_mkCst x s hs

/-- constant folding returns a well-formed constant of the dictated width -/
theorem cstApi_post (o : Op) (lv ls : Nat) (lf : Bool) (rv rs : Nat) (rf : Bool) (hs : 0 < ls) :
    Post (resSize o (cst lv ls lf)) (cstApi o lv ls lf rv rs rf) := by
  intro e h
  unfold cstApi at h
  cases o <;> simp only [resSize, Op.type, size_cst] at h ⊢ <;>
    first
    | (cases h; exact ⟨WF_mkCst _ _ (by omega), rfl⟩)
    | (cases h; exact ⟨WF_ofBool _, rfl⟩)
    | (cases h)
    | (split at h <;> first | (cases h; done) | (cases h; exact ⟨WF_mkCst _ _ (by omega), rfl⟩))

end Expr

open Expr

/-- the induction hypothesis: every function of the mutual block, at a given fuel, returns well-formed
    results of the dictated width. -/
structure WidthIH (cfg : Cfg) (fuel : Nat) : Prop where
  simplify : ∀ o e, WF e → Post e.size (simplify cfg fuel o e)
  eqn1 : ∀ o r size sf prop, WF r → size = r.size → Post size (eqn1 cfg fuel o r size sf prop)
  eqn2 : ∀ opts o l r size sf prop, WF (.op o l r size sf prop) → Post size (eqn2 cfg fuel opts o l r size sf prop)
  eqn2norm : ∀ o l r size sf prop, WF (.op o l r size sf prop) →
      ∀ o' l' r', eqn2norm cfg fuel o l r = .ok (o', l', r') → WF (.op o' l' r' size sf prop)
  eqn2cst : ∀ opts o l rv rs rf size sf prop, WF (.op o l (.cst rv rs rf) size sf prop) →
      ∀ res, eqn2cst cfg fuel opts o l rv rs rf size sf = .ok (some res) → WF res ∧ res.size = size
  eqn2snd : ∀ opts o l rv rs rf size sf prop, WF (.op o l (.cst rv rs rf) size sf prop) →
      Post size (eqn2snd cfg fuel opts o l rv rs rf size sf prop)
  eqn2tail : ∀ opts o l r size sf prop, WF (.op o l r size sf prop) → Post size (eqn2tail cfg fuel opts o l r size sf prop)
  oper : ∀ o l r, WF l → WF r → (o.type = 4 → l.size = r.size) → Post (resSize o l) (oper cfg fuel o l r)
  operU : ∀ o r, WF r → Post r.size (operU cfg fuel o r)
  apiNeg : ∀ x, WF x → Post x.size (apiNeg cfg fuel x)
  apiNot : ∀ x, WF x → Post x.size (apiNot cfg fuel x)
  api : ∀ o l r, WF l → WF r → (o.type = 4 → l.size = r.size) → Post (resSize o l) (api cfg fuel o l r)
  apiExp : ∀ o l r, WF l → WF r → (o.type = 4 → l.size = r.size) → Post (resSize o l) (apiExp cfg fuel o l r)
  callOp : ∀ o l r, WF l → WF r → (o.type = 4 → l.size = r.size) → Post (resSize o l) (callOp cfg fuel o l r)
  callUop : ∀ o r, WF r → Post r.size (callUop cfg fuel o r)
  helperCmp : ∀ o x y, WF x → WF y → x.size = y.size → o.type = 4 → Post 1 (helperCmp cfg fuel o x y)
  helperRot : ∀ o x n, WF x → WF n → o.type = 8 → Post x.size (helperRot cfg fuel o x n)
  getitem : ∀ x a b, WF x → Post (b - a).toNat (getitem cfg fuel x a b)
  slicer : ∀ x pos size, WF x → 0 < size → pos + size ≤ x.size → Post size (slicer cfg fuel x pos size)
  mkSlc : ∀ x pos size, WF x → 0 < size → pos + size ≤ x.size → Post size (mkSlc cfg fuel x pos size)
  setitem : ∀ n sf ps (a b : Int) v r, Disj n ps → (∀ p ∈ ps, WF p.2.2) → WF v →
      setitem cfg fuel (.comp n sf ps) a b v = .ok r →
      ∃ ps', r = .comp n sf ps' ∧ Disj n ps' ∧ (∀ p ∈ ps', WF p.2.2) ∧ 0 ≤ a ∧ a < b ∧ b ≤ n ∧
        ∀ x : Nat, cnt x ps' = if a ≤ (x : Int) ∧ (x : Int) < b then 1 else cnt x ps
  composer : ∀ parts, (∀ x ∈ parts, WF x) → Post (parts.foldl (fun a x => a + x.size) 0) (composer cfg fuel parts)
  extendExp : ∀ sign x size, WF x → Post (max size x.size) (extendExp cfg fuel sign x size)

theorem resSize_shift (o' : Op) (y : Expr) (h : o'.type = 8 ∨ o' = Op.or ∨ o' = Op.sub) : resSize o' y = y.size := by
  rcases h with h | rfl | rfl
  · have hne : o' ≠ Op.mul2 := by intro h'; subst h'; simp [Op.type] at h
    simp [resSize, h, hne]
  · simp [resSize, Op.type]
  · simp [resSize, Op.type]

theorem WF_clearLeftSf (e : Expr) : WF (clearLeftSf e) ↔ WF e := by
  unfold clearLeftSf
  split
  · simp only [WF, size_cst]
  · rfl

theorem size_clearLeftSf (e : Expr) : (clearLeftSf e).size = e.size := by
  unfold clearLeftSf
  split <;> rfl

variable (cfg : Cfg)

theorem widthIH_zero : WidthIH cfg 0 := by
  constructor
  all_goals intros
  all_goals first
    | (rw [simplify.eq_def]; exact Post_error _ _)
    | (rw [eqn1.eq_def]; exact Post_error _ _)
    | (rw [eqn2.eq_def]; exact Post_error _ _)
    | (rename_i h; rw [eqn2norm.eq_def] at h; cases h)
    | (rename_i h; rw [eqn2cst.eq_def] at h; cases h)
    | (rw [eqn2snd.eq_def]; exact Post_error _ _)
    | (rw [eqn2tail.eq_def]; exact Post_error _ _)
    | (rw [oper.eq_def]; exact Post_error _ _)
    | (rw [operU.eq_def]; exact Post_error _ _)
    | (rw [apiNeg.eq_def]; exact Post_error _ _)
    | (rw [apiNot.eq_def]; exact Post_error _ _)
    | (rw [api.eq_def]; exact Post_error _ _)
    | (rw [apiExp.eq_def]; exact Post_error _ _)
    | (rw [callOp.eq_def]; exact Post_error _ _)
    | (rw [callUop.eq_def]; exact Post_error _ _)
    | (rw [helperCmp.eq_def]; exact Post_error _ _)
    | (rw [helperRot.eq_def]; exact Post_error _ _)
    | (rw [getitem.eq_def]; exact Post_error _ _)
    | (rw [slicer.eq_def]; exact Post_error _ _)
    | (rw [mkSlc.eq_def]; exact Post_error _ _)
    | (rename_i h; rw [setitem.eq_def] at h; cases h)
    | (rw [composer.eq_def]; exact Post_error _ _)
    | (rw [extendExp.eq_def]; exact Post_error _ _)

section steps
variable {cfg} {fuel : Nat} (ih : WidthIH cfg fuel)
include ih

theorem callUop_step (o : Op) (r : Expr) (hr : WF r) : Post r.size (callUop cfg (fuel + 1) o r) := by
  rw [callUop.eq_def]; dsimp only
  split
  · exact ih.apiNeg r hr
  · exact ih.apiNot r hr
  · exact Post_ok hr rfl
  · exact Post_error _ _

theorem operU_step (o : Op) (r : Expr) (hr : WF r) : Post r.size (operU cfg (fuel + 1) o r) := by
  rw [operU.eq_def]; dsimp only
  have : WF (mkUop o r) := by
    simp only [mkUop, WF]; exact ⟨WF_size_pos r hr, hr, trivial⟩
  exact ih.simplify {} (mkUop o r) this

theorem apiNeg_step (x : Expr) (hx : WF x) : Post x.size (apiNeg cfg (fuel + 1) x) := by
  rw [apiNeg.eq_def]; dsimp only
  split
  · exact Post_ok (WF_mkCst _ _ (WF_size_pos _ hx)) rfl
  · exact ih.operU _ _ hx

theorem apiNot_step (x : Expr) (hx : WF x) : Post x.size (apiNot cfg (fuel + 1) x) := by
  rw [apiNot.eq_def]; dsimp only
  split
  · exact Post_ok (WF_mkCst _ _ (WF_size_pos _ hx)) rfl
  · exact ih.operU _ _ hx

theorem oper_step (o : Op) (l r : Expr) (hl : WF l) (hr : WF r) (h4 : o.type = 4 → l.size = r.size) :
    Post (resSize o l) (oper cfg (fuel + 1) o l r) := by
  rw [oper.eq_def]; dsimp only
  apply Post_bind
  intro e he
  obtain ⟨h1, h2⟩ := mkOp_spec o l r e hl hr h4 he
  exact h2 ▸ ih.simplify {} e h1

theorem apiExp_step (o : Op) (l r : Expr) (hl : WF l) (hr : WF r) (h4 : o.type = 4 → l.size = r.size) :
    Post (resSize o l) (apiExp cfg (fuel + 1) o l r) := by
  rw [apiExp.eq_def]; dsimp only
  split <;> first
    | exact ih.oper _ l r hl hr h4
    | (split
       · first
         | exact Post_ok WF_bit1 (by simp [resSize, Op.type])
         | exact Post_ok WF_bit0 (by simp [resSize, Op.type])
       · exact ih.oper _ l r hl hr h4)

theorem api_step (o : Op) (l r : Expr) (hl : WF l) (hr : WF r) (h4 : o.type = 4 → l.size = r.size) :
    Post (resSize o l) (api cfg (fuel + 1) o l r) := by
  rw [api.eq_def]; dsimp only
  split
  · rename_i lv ls lf
    split
    · exact Post_error _ _
    · split
      · rename_i rv rs rf
        refine Post_of_eq (cstApi_post o _ _ _ _ _ _ hl.1) ?_
        simp [resSize]
      · have hl' : WF (cst lv ls (if (o == Op.lsr) = true then false else if (o == Op.asr) = true then true else lf)) := hl
        have := ih.apiExp o _ r hl' hr h4
        simpa [resSize] using this
  · exact ih.apiExp o l r hl hr h4

theorem helperCmp_step (o : Op) (x y : Expr) (hx : WF x) (hy : WF y) (hs : x.size = y.size) (ho : o.type = 4) :
    Post 1 (helperCmp cfg (fuel + 1) o x y) := by
  rw [helperCmp.eq_def]; dsimp only
  split
  · have := ih.api (if (o == Op.ltu) = true then Op.lt else Op.ge) (x.setSf false) (y.setSf false)
      ((WF_setSf _ _).mpr hx) ((WF_setSf _ _).mpr hy) (by intro _; simpa using hs)
    have e : resSize (if (o == Op.ltu) = true then Op.lt else Op.ge) (x.setSf false) = 1 := by
      split <;> simp [resSize, Op.type]
    exact e ▸ this
  · intro e he
    have := mkOp_spec o x y e hx hy (fun _ => hs) he
    simpa [resSize, ho] using this

theorem helperRot_step (o : Op) (x n : Expr) (hx : WF x) (hn : WF n) (ho : o.type = 8) :
    Post x.size (helperRot cfg (fuel + 1) o x n) := by
  rw [helperRot.eq_def]; dsimp only
  have hx' : WF (x.setSf false) := (WF_setSf _ _).mpr hx
  have hc : ∀ k : Nat, WF (mkCst (k : Int) x.size) := fun k => WF_mkCst _ _ (WF_size_pos _ hx)
  have hcn : WF (mkCst (x.size : Int) n.size) := WF_mkCst _ _ (WF_size_pos _ hn)
  have lsr8 : Op.lsr.type = 8 := rfl
  have lsl8 : Op.lsl.type = 8 := rfl
  -- the common tail: `t1 | t2` with both of the width of `x`
  have tail : ∀ t1 t2 : Expr, WF t1 → t1.size = x.size → WF t2 → t2.size = x.size →
      Post x.size (api cfg fuel Op.or t1 t2) := by
    intro t1 t2 w1 s1 w2 s2
    have := ih.api Op.or t1 t2 w1 w2 (by intro h; simp [Op.type] at h)
    rw [resSize_shift Op.or t1 (Or.inr (Or.inl rfl)), s1] at this
    exact this
  split
  · split
    · apply Post_bind; intro t1 ht1
      apply Post_bind; intro t2 ht2
      have h1 := ih.api Op.lsr x _ hx (hc _) (by intro h; simp [Op.type] at h) t1 ht1
      have h2 := ih.api Op.lsl _ _ hx' (hc _) (by intro h; simp [Op.type] at h) t2 ht2
      rw [resSize_shift _ _ (Or.inl lsr8)] at h1
      rw [resSize_shift _ _ (Or.inl lsl8), size_setSf] at h2
      exact tail t1 t2 h1.1 h1.2 h2.1 h2.2
    · apply Post_bind; intro t1 ht1
      apply Post_bind; intro t2 ht2
      have h1 := ih.api Op.lsl x _ hx (hc _) (by intro h; simp [Op.type] at h) t1 ht1
      have h2 := ih.api Op.lsr _ _ hx (hc _) (by intro h; simp [Op.type] at h) t2 ht2
      rw [resSize_shift _ _ (Or.inl lsl8)] at h1
      rw [resSize_shift _ _ (Or.inl lsr8)] at h2
      exact tail t1 t2 h1.1 h1.2 h2.1 h2.2
  · split
    · split
      · apply Post_bind; intro t1 ht1
        apply Post_bind; intro k hk
        apply Post_bind; intro t2 ht2
        have h1 := ih.api Op.lsr x n hx hn (by intro h; simp [Op.type] at h) t1 ht1
        have hk' := ih.api Op.sub _ n hcn hn (by intro h; simp [Op.type] at h) k hk
        have h2 := ih.api Op.lsl _ k hx' hk'.1 (by intro h; simp [Op.type] at h) t2 ht2
        rw [resSize_shift _ _ (Or.inl lsr8)] at h1
        rw [resSize_shift _ _ (Or.inl lsl8), size_setSf] at h2
        exact tail t1 t2 h1.1 h1.2 h2.1 h2.2
      · apply Post_bind; intro t1 ht1
        apply Post_bind; intro k hk
        apply Post_bind; intro t2 ht2
        have h1 := ih.api Op.lsl x n hx hn (by intro h; simp [Op.type] at h) t1 ht1
        have hk' := ih.api Op.sub _ n hcn hn (by intro h; simp [Op.type] at h) k hk
        have h2 := ih.api Op.lsr _ k hx hk'.1 (by intro h; simp [Op.type] at h) t2 ht2
        rw [resSize_shift _ _ (Or.inl lsl8)] at h1
        rw [resSize_shift _ _ (Or.inl lsr8)] at h2
        exact tail _ t2 ((WF_clearLeftSf _).mpr h1.1) (by rw [size_clearLeftSf]; exact h1.2) h2.1 h2.2
    · intro e he
      have := mkOp_spec o x n e hx hn (by intro h; omega) he
      rw [resSize_shift o x (Or.inl ho)] at this
      exact this

theorem callOp_step (o : Op) (l r : Expr) (hl : WF l) (hr : WF r) (h4 : o.type = 4 → l.size = r.size) :
    Post (resSize o l) (callOp cfg (fuel + 1) o l r) := by
  rw [callOp.eq_def]; dsimp only
  have hl' : WF (if o.unsignedCall = true then l.setSf false else l) := by
    split
    · exact (WF_setSf _ _).mpr hl
    · exact hl
  have hr' : WF (if o.unsignedCall = true then r.setSf false else r) := by
    split
    · exact (WF_setSf _ _).mpr hr
    · exact hr
  have sl : (if o.unsignedCall = true then l.setSf false else l).size = l.size := by split <;> simp
  have sr : (if o.unsignedCall = true then r.setSf false else r).size = r.size := by split <;> simp
  have rsz : resSize o (if o.unsignedCall = true then l.setSf false else l) = resSize o l := by
    unfold resSize; rw [sl]
  split
  · have := ih.helperCmp Op.ltu _ _ hl' hr' (by rw [sl, sr]; exact h4 rfl) rfl
    simpa [resSize, Op.type] using this
  · have := ih.helperCmp Op.geu _ _ hl' hr' (by rw [sl, sr]; exact h4 rfl) rfl
    simpa [resSize, Op.type] using this
  · have := ih.helperRot Op.ror _ _ hl' hr' rfl
    rw [sl] at this
    simpa [resSize, Op.type] using this
  · have := ih.helperRot Op.rol _ _ hl' hr' rfl
    rw [sl] at this
    simpa [resSize, Op.type] using this
  · exact Post_error _ _
  · have := ih.api o _ _ hl' hr' (by intro h; rw [sl, sr]; exact h4 h)
    rw [rsz] at this
    exact this

end steps

end Amoco
