/-
  Amoco.Proofs.ExprWidth — every function of the rewrite system returns a well-formed expression of the
  width its construction dictates (C12), by induction on the fuel over the whole mutual block.
-/
import Amoco.Proofs.ExprComp

namespace Amoco

open Expr

/-- postcondition: a successful result is well-formed and `s` bits wide -/
def Post (s : Nat) (r : R Expr) : Prop := ∀ e, r = .ok e → WF e ∧ e.size = s

theorem Post_error (s : Nat) (k : Err) : Post s (.error k) := by intro e h; cases h

theorem Post_ok {s : Nat} {e : Expr} (h1 : WF e) (h2 : e.size = s) : Post s (.ok e) := by
  intro e' h; cases h; exact ⟨h1, h2⟩

theorem Post_pure {s : Nat} {e : Expr} (h1 : WF e) (h2 : e.size = s) : Post s (pure e) := Post_ok h1 h2

theorem Post_bind {α : Type} {s : Nat} (x : R α) (f : α → R Expr) (h : ∀ a, x = .ok a → Post s (f a)) :
    Post s (x >>= f) := by
  intro e he
  cases x with
  | error k => cases he
  | ok a => exact h a rfl e he

theorem Post_of_eq {s t : Nat} {r : R Expr} (h : Post s r) (e : s = t) : Post t r := e ▸ h

namespace Expr

@[simp] theorem size_cst (v s : Nat) (f : Bool) : (cst v s f).size = s := rfl
@[simp] theorem size_reg (n : String) (s : Nat) (f : Bool) : (reg n s f).size = s := rfl
@[simp] theorem size_ext (n : String) (s : Nat) (f : Bool) : (ext n s f).size = s := rfl
@[simp] theorem size_slc (x : Expr) (p s : Nat) (f : Bool) (r : Option String) (k : Nat) : (slc x p s f r k).size = s := rfl
@[simp] theorem size_comp (s : Nat) (f : Bool) (ps : List Part) : (comp s f ps).size = s := rfl
@[simp] theorem size_tst (t l r : Expr) (s : Nat) (f : Bool) : (tst t l r s f).size = s := rfl
@[simp] theorem size_op (o : Op) (l r : Expr) (s : Nat) (f : Bool) (p : Nat) : (op o l r s f p).size = s := rfl
@[simp] theorem size_uop (o : Op) (r : Expr) (s : Nat) (f : Bool) (p : Nat) : (uop o r s f p).size = s := rfl
@[simp] theorem size_vec (l : List Expr) (s : Nat) (f : Bool) : (vec l s f).size = s := rfl
@[simp] theorem size_vecw (l : List Expr) (s : Nat) (f : Bool) : (vecw l s f).size = s := rfl
@[simp] theorem size_top (s : Nat) (f : Bool) : (top s f).size = s := rfl
@[simp] theorem size_mkTop (s : Nat) : (mkTop s).size = s := rfl
@[simp] theorem size_mkCst' (x : Int) (s : Nat) : (mkCst x s).size = s := rfl
@[simp] theorem size_bit0 : bit0.size = 1 := rfl
@[simp] theorem size_bit1 : bit1.size = 1 := rfl

theorem WF_setSf (f : Bool) (e : Expr) : WF (e.setSf f) ↔ WF e := by
  cases e <;> simp only [setSf, WF]

theorem WF_bit0 : WF bit0 := by simp [bit0, WF]
theorem WF_bit1 : WF bit1 := by simp [bit1, WF]
theorem WF_ofBool (b : Bool) : WF (ofBool b) := by cases b <;> simp [ofBool, WF]
theorem size_ofBool (b : Bool) : (ofBool b).size = 1 := rfl
theorem WF_mkTop {n : Nat} (h : 0 < n) : WF (mkTop n) := by simp [mkTop, WF, h]

theorem WF_size_pos (e : Expr) (h : WF e) : 0 < e.size := by
  cases e <;> simp only [WF] at h <;> first | exact h.1 | exact h | exact h.2.1

theorem WFList_iff (l : List Expr) (s : Nat) : WFList l s ↔ ∀ x ∈ l, WF x ∧ x.size = s := by
  induction l with
  | nil => simp [WFList]
  | cons x tl ih => simp only [WFList, ih, List.mem_cons, forall_eq_or_imp, and_assoc]

theorem mapM_spec {α β : Type} (f : α → R β) (P : α → Prop) (Q : β → Prop)
    (hf : ∀ a b, P a → f a = .ok b → Q b) :
    ∀ (l : List α) (l' : List β), (∀ a ∈ l, P a) → l.mapM f = .ok l' → (∀ b ∈ l', Q b) ∧ l'.length = l.length := by
  intro l
  induction l with
  | nil => intro l' _ h; simp [List.mapM_nil, pure, Except.pure] at h; subst h; simp
  | cons x tl ih =>
    intro l' hP h
    rw [List.mapM_cons] at h
    cases hx : f x with
    | error e => rw [hx] at h; cases h
    | ok y =>
      rw [hx] at h
      simp only [bind, Except.bind] at h
      cases ht : List.mapM f tl with
      | error e => rw [ht] at h; cases h
      | ok ys =>
        rw [ht] at h
        simp only [pure, Except.pure] at h
        cases h
        obtain ⟨h1, h2⟩ := ih ys (fun a ha => hP a (List.mem_cons_of_mem _ ha)) ht
        refine ⟨?_, by simp [h2]⟩
        intro b hb
        rcases List.mem_cons.mp hb with rfl | hb
        · exact hf x _ (hP x List.mem_cons_self) hx
        · exact h1 b hb

theorem foldl_max_eq (l : List Expr) (s m : Nat) (h : ∀ x ∈ l, x.size = s) (hm : m ≤ s) (hne : l ≠ []) :
    l.foldl (fun m e => max m e.size) m = s := by
  induction l generalizing m with
  | nil => exact absurd rfl hne
  | cons x tl ih =>
    simp only [List.foldl_cons]
    have hx := h x List.mem_cons_self
    by_cases ht : tl = []
    · subst ht; simp only [List.foldl_nil]; omega
    · exact ih (max m x.size) (fun y hy => h y (List.mem_cons_of_mem _ hy)) (by omega) ht

theorem mkVec_spec (l : List Expr) (s : Nat) (v : Expr) (hs : 0 < s) (hne : l ≠ [])
    (h : ∀ x ∈ l, WF x ∧ x.size = s) (hv : mkVec l = .ok v) : WF v ∧ v.size = s := by
  unfold mkVec at hv
  have hsz : l.foldl (fun m e => max m e.size) 0 = s := foldl_max_eq l s 0 (fun x hx => (h x hx).2) (by omega) hne
  simp only [hsz] at hv
  split at hv
  · cases hv
  · cases hv
    simp only [WF, size_vec]
    exact ⟨⟨hs, hne, (WFList_iff l s).mpr h⟩, trivial⟩

/-- the width an operator node is given by its constructor -/
def resSize (o : Op) (l : Expr) : Nat := if o.type = 4 then 1 else if o = Op.mul2 then 2 * l.size else l.size

theorem resSize_setSf (o : Op) (l : Expr) (f : Bool) : resSize o (l.setSf f) = resSize o l := by
  unfold resSize; rw [size_setSf]

theorem type_cases (o : Op) : o.type = 1 ∨ o.type = 2 ∨ o.type = 4 ∨ o.type = 8 := by
  cases o <;> simp [Op.type]

theorem mkOp_spec (o : Op) (l r e : Expr) (hl : WF l) (hr : WF r) (h4 : o.type = 4 → l.size = r.size)
    (h : mkOp o l r = .ok e) : WF e ∧ e.size = resSize o l := by
  unfold mkOp at h
  have hpos := WF_size_pos l hl
  by_cases hc : (decide (o.type < 4) && l.size != r.size) = true
  · simp only [hc, if_true] at h; cases h
  · simp only [hc] at h
    simp only [Bool.and_eq_true, decide_eq_true_eq, bne_iff_ne, ne_eq, not_and, Decidable.not_not] at hc
    cases h
    simp only [WF, size_op, resSize]
    have hprop : o.type ≤ o.type ||| l.propOf ||| r.propOf := by
      exact Nat.le_trans Nat.left_le_or Nat.left_le_or
    rcases type_cases o with ht | ht | ht | ht
    · have := hc (by omega)
      rw [ht] at hprop
      simp only [ht]
      by_cases hm : o = Op.mul2
      · subst hm; simp [hl, hr, this]; omega
      · simp [hm, hl, hr, this]; omega
    · have := hc (by omega)
      have hne : o ≠ Op.mul2 := by intro h; subst h; simp [Op.type] at ht
      rw [ht] at hprop
      simp [ht, hne, hl, hr, this]; omega
    · rw [ht] at hprop
      simp [ht, hl, hr, h4 ht, hprop]
    · have hne : o ≠ Op.mul2 := by intro h; subst h; simp [Op.type] at ht
      rw [ht] at hprop
      simp [ht, hne, hl, hr, hpos, hprop]

/-- what `WF` says about an operator node, in terms of `resSize` -/
theorem WF_op_iff (o : Op) (l r : Expr) (s : Nat) (f : Bool) (p : Nat) :
    WF (op o l r s f p) ↔ (0 < s ∧ o.type ≤ p ∧ WF l ∧ WF r ∧ s = resSize o l ∧ (o.type ≠ 8 → l.size = r.size)) := by
  simp only [WF, resSize]
  rcases type_cases o with ht | ht | ht | ht
  · simp only [ht]; constructor
    · rintro ⟨a, b, c, d, e, g⟩; exact ⟨a, b, c, d, by simpa using g, fun _ => e⟩
    · rintro ⟨a, b, c, d, e, g⟩; exact ⟨a, b, c, d, g (by omega), by simpa using e⟩
  · have hne : o ≠ Op.mul2 := by intro h; subst h; simp [Op.type] at ht
    simp only [ht, hne]; constructor
    · rintro ⟨a, b, c, d, e, g⟩; exact ⟨a, b, c, d, by simpa using g, fun _ => e⟩
    · rintro ⟨a, b, c, d, e, g⟩; exact ⟨a, b, c, d, g (by omega), by simpa using e⟩
  · simp only [ht]; constructor
    · rintro ⟨a, b, c, d, e, g⟩; exact ⟨a, b, c, d, by simpa using e, fun _ => g⟩
    · rintro ⟨a, b, c, d, e, g⟩; exact ⟨a, b, c, d, by simpa using e, g (by omega)⟩
  · have hne : o ≠ Op.mul2 := by intro h; subst h; simp [Op.type] at ht
    simp only [ht, hne]; constructor
    · rintro ⟨a, b, c, d, e⟩; exact ⟨a, b, c, d, by simpa using e, fun h => absurd rfl h⟩
    · rintro ⟨a, b, c, d, e, _⟩; exact ⟨a, b, c, d, by simpa using e⟩

theorem resSize_congr (o : Op) {l l' : Expr} (h : l'.size = l.size) : resSize o l' = resSize o l := by
  unfold resSize; rw [h]

theorem WF_mkCst' (x : Int) (s : Nat) (hs : 0 < s) : WF (mkCst x s) := WF_mkCst x s hs

/-- constant folding returns a well-formed constant of the dictated width -/
theorem cstApi_post (o : Op) (lv ls : Nat) (lf : Bool) (rv rs : Nat) (rf : Bool) (hs : 0 < ls) :
    Post (resSize o (cst lv ls lf)) (cstApi o lv ls lf rv rs rf) := by
  intro e h
  unfold cstApi at h
  cases o <;> simp only [resSize, Op.type, size_cst] at h ⊢ <;>
    first
    | (cases h; exact ⟨WF_mkCst _ _ (by omega), rfl⟩)
    | (cases h; exact ⟨WF_ofBool _, rfl⟩)
    | (cases h)
    | (split at h <;> first | (cases h; done) | (cases h; exact ⟨WF_mkCst _ _ (by omega), rfl⟩))

end Expr

open Expr

/-! ### memory expressions -/

theorem memGetitem_spec (x : Expr) (sta sto : Nat) (r : Expr) (hx : WF x) (h1 : sta < sto) (h2 : sto ≤ x.size)
    (h : memGetitem x sta sto = .ok r) : WF r ∧ r.size = sto - sta := by
  unfold memGetitem at h
  split at h
  · rename_i n bs bf d ps pf size sf be mods
    simp only [WF, WFOpt] at hx
    obtain ⟨⟨hps, hbs, _, hpb⟩, hsz, hm⟩ := hx
    simp only [Expr.size] at h2
    have hy : WF (Expr.mem (.ptr (.reg n bs false) none
        (d + (if be = true then ((size / 8 : Nat) : Int) - (((sto + 7) / 8 : Nat) : Int) else ((sta / 8 : Nat) : Int))) ps false)
        (((sto + 7) / 8 - sta / 8) * 8) sf be mods) := by
      simp only [WF, WFOpt]
      refine ⟨⟨hps, hbs, trivial, by simpa using hpb⟩, by omega, hm⟩
    by_cases hr : (decide (sta % 8 > 0) || decide (sto % 8 > 0)) = true
    · rw [if_pos hr] at h
      cases h
      refine ⟨?_, rfl⟩
      simp only [WF]
      exact ⟨hy, by omega, by simp only [Expr.size]; omega⟩
    · rw [if_neg hr] at h
      simp only [Bool.or_eq_true, decide_eq_true_eq, not_or, Nat.not_lt, Nat.le_zero_eq] at hr
      cases h
      exact ⟨hy, by simp only [Expr.size]; omega⟩
  · cases h

theorem memSimplify_spec (x r : Expr) (hx : WF x) (h : memSimplify x = .ok r) : WF r ∧ r.size = x.size := by
  unfold memSimplify at h
  split at h
  · cases h
    simp only [WF, WFOpt] at hx ⊢
    exact ⟨⟨⟨hx.1.1, hx.1.2.1, trivial, by simpa using hx.1.2.2.2⟩, hx.2.1, hx.2.2⟩, rfl⟩
  · cases h

theorem slcMem_spec (x : Expr) (pos size : Nat) (sf : Bool) (ref : Option String) (ety : Nat) (r : Expr) (hx : WF x)
    (hs : 0 < size) (hp : pos + size ≤ x.size) (h : slcMem x pos size sf ref ety = .ok r) : WF r ∧ r.size = size := by
  unfold slcMem at h
  split at h
  · split at h
    · cases h
      simp only [WF, WFOpt] at hx ⊢
      exact ⟨⟨⟨hx.1.1, hx.1.2.1, trivial, by simpa using hx.1.2.2.2⟩, hs, trivial⟩, rfl⟩
    · cases h
      exact ⟨by simp only [WF]; exact ⟨hx, hs, hp⟩, rfl⟩
  · cases h

/-- the induction hypothesis: every function of the mutual block, at a given fuel, returns well-formed
    results of the dictated width. -/
structure WidthIH (cfg : Cfg) (fuel : Nat) : Prop where
  simplify : ∀ o e, WF e → Post e.size (simplify cfg fuel o e)
  eqn1 : ∀ o r size sf prop, WF r → size = r.size → Post size (eqn1 cfg fuel o r size sf prop)
  eqn2 : ∀ opts o l r size sf prop, WF (.op o l r size sf prop) → Post size (eqn2 cfg fuel opts o l r size sf prop)
  eqn2norm : ∀ o l r size sf prop, WF (.op o l r size sf prop) →
      ∀ o' l' r', eqn2norm cfg fuel o l r = .ok (o', l', r') → WF (.op o' l' r' size sf prop)
  normL : ∀ o l r size sf prop, WF (.op o l r size sf prop) →
      ∀ t, normL cfg fuel o l r = .ok t → WF (.op t.1 t.2.1 t.2.2 size sf prop)
  normR : ∀ o l r size sf prop, WF (.op o l r size sf prop) →
      ∀ t, normR cfg fuel o l r = .ok t → WF (.op t.1 t.2.1 t.2.2 size sf prop)
  eqn2cst : ∀ opts o l rv rs rf size sf prop, WF (.op o l (.cst rv rs rf) size sf prop) →
      ∀ res, eqn2cst cfg fuel opts o l rv rs rf size sf = .ok (some res) → WF res ∧ res.size = size
  eqn2snd : ∀ opts o l rv rs rf size sf prop, WF (.op o l (.cst rv rs rf) size sf prop) →
      Post size (eqn2snd cfg fuel opts o l rv rs rf size sf prop)
  eqn2tail : ∀ opts o l r size sf prop, WF (.op o l r size sf prop) → Post size (eqn2tail cfg fuel opts o l r size sf prop)
  oper : ∀ o l r, WF l → WF r → (o.type = 4 → l.size = r.size) → Post (resSize o l) (oper cfg fuel o l r)
  operU : ∀ o r, WF r → Post r.size (operU cfg fuel o r)
  apiNeg : ∀ x, WF x → Post x.size (apiNeg cfg fuel x)
  apiNot : ∀ x, WF x → Post x.size (apiNot cfg fuel x)
  api : ∀ o l r, WF l → WF r → (o.type = 4 → l.size = r.size) → Post (resSize o l) (api cfg fuel o l r)
  apiExp : ∀ o l r, WF l → WF r → (o.type = 4 → l.size = r.size) → Post (resSize o l) (apiExp cfg fuel o l r)
  callOp : ∀ o l r, WF l → WF r → (o.type = 4 → l.size = r.size) → Post (resSize o l) (callOp cfg fuel o l r)
  callUop : ∀ o r, WF r → Post r.size (callUop cfg fuel o r)
  helperCmp : ∀ o x y, WF x → WF y → x.size = y.size → o.type = 4 → Post 1 (helperCmp cfg fuel o x y)
  helperRot : ∀ o x n, WF x → WF n → o.type = 8 → Post x.size (helperRot cfg fuel o x n)
  getitem : ∀ x a b, WF x → Post (b - a).toNat (getitem cfg fuel x a b)
  slicer : ∀ x pos size, WF x → 0 < size → pos + size ≤ x.size → Post size (slicer cfg fuel x pos size)
  mkSlc : ∀ x pos size, WF x → 0 < size → pos + size ≤ x.size → Post size (mkSlc cfg fuel x pos size)
  setitem : ∀ n sf ps (a b : Int) v r, Disj n ps → (∀ p ∈ ps, WF p.2.2) → WF v →
      setitem cfg fuel (.comp n sf ps) a b v = .ok r →
      ∃ ps', r = .comp n sf ps' ∧ Disj n ps' ∧ (∀ p ∈ ps', WF p.2.2) ∧ 0 ≤ a ∧ a < b ∧ b ≤ n ∧
        ∀ x : Nat, cnt x ps' = if a ≤ (x : Int) ∧ (x : Int) < b then 1 else cnt x ps
  composer : ∀ parts, (∀ x ∈ parts, WF x) → Post (parts.foldl (fun a x => a + x.size) 0) (composer cfg fuel parts)
  extendExp : ∀ sign x size, WF x → Post (max size x.size) (extendExp cfg fuel sign x size)

theorem resSize_shift (o' : Op) (y : Expr) (h : o'.type = 8 ∨ o' = Op.or ∨ o' = Op.sub) : resSize o' y = y.size := by
  rcases h with h | rfl | rfl
  · have hne : o' ≠ Op.mul2 := by intro h'; subst h'; simp [Op.type] at h
    simp [resSize, h, hne]
  · simp [resSize, Op.type]
  · simp [resSize, Op.type]

theorem foldl_add_size (l : List Expr) (k : Nat) : l.foldl (fun a x => a + x.size) k = k + l.foldl (fun a x => a + x.size) 0 := by
  induction l generalizing k with
  | nil => simp
  | cons x tl ih => simp only [List.foldl_cons, Nat.zero_add]; rw [ih (k + x.size), ih x.size]; omega

theorem pm_types {o ro x : Op} (h : Op.pm o ro = some x) :
    o.type = 1 ∧ ro.type = 1 ∧ x.type = 1 ∧ o ≠ Op.mul2 ∧ ro ≠ Op.mul2 ∧ x ≠ Op.mul2 := by
  cases o <;> cases ro <;> simp [Op.pm] at h <;> subst h <;> simp [Op.type]

theorem resSize_type1 {o : Op} (l : Expr) (h1 : o.type = 1) (h2 : o ≠ Op.mul2) : resSize o l = l.size := by
  simp [resSize, h1, h2]

theorem tiles_exists {n : Nat} {ps : List Part} (ht : Tiles n ps) (x : Nat) :
    (∃ p ∈ ps, p.1 ≤ x ∧ x < p.2.1) ↔ x < n := by
  constructor
  · rintro ⟨p, hp, h1, h2⟩
    have := ht.1 p hp
    omega
  · intro hx
    have hcnt := ht.2 x hx
    have hsome := cover_isSome_of_cnt (b := x) (ps := ps) (by show 1 ≤ cnt _ _; change cnt _ _ = 1 at hcnt; omega)
    cases hcv : cover x ps with
    | none => rw [hcv] at hsome; cases hsome
    | some p =>
      obtain ⟨hm, h1, h2⟩ := cover_spec hcv
      exact ⟨p, hm, h1, h2⟩

/-- simplifying / evaluating every part of a comp keeps the keys: coverage and sizes are unchanged -/
theorem mapM_parts_spec (f : Expr → R Expr) (hf : ∀ e r, WF e → f e = .ok r → WF r ∧ r.size = e.size) :
    ∀ (ps ps' : List Part), (∀ p ∈ ps, WF p.2.2) →
      ps.mapM (fun (p : Part) => do let v ← f p.2.2; pure ((p.1, p.2.1, v) : Part)) = .ok ps' →
      (∀ p ∈ ps', WF p.2.2) ∧ (∀ n, Sized n ps → Sized n ps') ∧ ∀ b, cnt b ps' = cnt b ps := by
  intro ps
  induction ps with
  | nil =>
    intro ps' _ h
    simp only [List.mapM_nil, pure, Except.pure] at h
    cases h
    exact ⟨(by intro p hp; cases hp), fun _ h => h, fun _ => rfl⟩
  | cons q tl ih =>
    intro ps' hw h
    rw [List.mapM_cons] at h
    cases hq : f q.2.2 with
    | error e => rw [hq] at h; cases h
    | ok v =>
      rw [hq] at h
      simp only [bind, Except.bind, pure, Except.pure] at h
      cases ht : List.mapM (fun (p : Part) => do let v ← f p.2.2; pure ((p.1, p.2.1, v) : Part)) tl with
      | error e =>
        simp only [bind, Except.bind, pure, Except.pure] at ht
        rw [ht] at h; cases h
      | ok tl' =>
        simp only [bind, Except.bind, pure, Except.pure] at ht
        rw [ht] at h
        cases h
        obtain ⟨h1, h2, h3⟩ := ih tl' (fun p hp => hw p (List.mem_cons_of_mem _ hp)) (by simpa [bind, Except.bind, pure, Except.pure] using ht)
        have hv := hf q.2.2 v (hw q List.mem_cons_self) hq
        refine ⟨?_, ?_, ?_⟩
        · intro p hp
          rcases List.mem_cons.mp hp with rfl | hp
          · exact hv.1
          · exact h1 p hp
        · intro n hs p hp
          rcases List.mem_cons.mp hp with rfl | hp
          · have := hs q List.mem_cons_self
            exact ⟨this.1, this.2.1, by simp only; rw [hv.2]; exact this.2.2⟩
          · exact h2 n (fun p hp => hs p (List.mem_cons_of_mem _ hp)) p hp
        · intro b
          rw [cnt_cons, cnt_cons, h3 b]

theorem vecFlat_spec (f : Expr → R Expr) (s : Nat) (hf : ∀ e r, WF e → f e = .ok r → WF r ∧ r.size = e.size) :
    ∀ (l acc : List Expr) (early : Option Expr) (acc' : List Expr),
      (∀ x ∈ l, WF x ∧ x.size = s) → (∀ x ∈ acc, WF x ∧ x.size = s) →
      vecFlat f l acc = .ok (early, acc') →
      (∀ ee, early = some ee → WF ee ∧ ee.size = s) ∧
      (early = none → (∀ x ∈ acc', WF x ∧ x.size = s) ∧ ((acc ≠ [] ∨ l ≠ []) → acc' ≠ [])) := by
  intro l
  induction l with
  | nil =>
    intro acc early acc' _ ha h
    simp only [vecFlat] at h
    cases h
    exact ⟨(by intro ee h; cases h), fun _ => ⟨ha, (by intro h; rcases h with h | h; exact h; exact absurd rfl h)⟩⟩
  | cons x tl ih =>
    intro acc early acc' hl ha h
    simp only [vecFlat] at h
    cases hx : f x with
    | error e => rw [hx] at h; cases h
    | ok ee =>
      rw [hx] at h
      simp only [bind, Except.bind] at h
      have hee := hf x ee (hl x List.mem_cons_self).1 hx
      have hees : ee.size = s := by rw [hee.2]; exact (hl x List.mem_cons_self).2
      have htl : ∀ y ∈ tl, WF y ∧ y.size = s := fun y hy => hl y (List.mem_cons_of_mem _ hy)
      split at h
      · simp only [pure, Except.pure] at h
        cases h
        exact ⟨(by intro e' h'; cases h'; exact ⟨hee.1, hees⟩), (by intro h'; cases h')⟩
      · split at h
        · rename_i l' s' f' _
          have hw := hee.1
          simp only [WF] at hw
          simp only [size_vec] at hees
          subst hees
          have hacc : ∀ y ∈ acc ++ l', WF y ∧ y.size = s' := by
            intro y hy
            rcases List.mem_append.mp hy with hy | hy
            · exact ha y hy
            · exact (WFList_iff l' s').mp hw.2.2 y hy
          obtain ⟨r1, r2⟩ := ih (acc ++ l') early acc' htl hacc h
          refine ⟨r1, fun hn => ⟨(r2 hn).1, fun _ => (r2 hn).2 (Or.inl ?_)⟩⟩
          intro hnil
          exact hw.2.1 (List.append_eq_nil_iff.mp hnil).2
        · have hacc : ∀ y ∈ acc ++ [ee], WF y ∧ y.size = s := by
            intro y hy
            rcases List.mem_append.mp hy with hy | hy
            · exact ha y hy
            · simp only [List.mem_singleton] at hy; subst hy; exact ⟨hee.1, hees⟩
          obtain ⟨r1, r2⟩ := ih (acc ++ [ee]) early acc' htl hacc h
          refine ⟨r1, fun hn => ⟨(r2 hn).1, fun _ => (r2 hn).2 (Or.inl ?_)⟩⟩
          intro hnil
          have := (List.append_eq_nil_iff.mp hnil).2
          cases this

theorem vecDedup_spec (eq : Expr → Expr → R Expr) (P : Expr → Prop) :
    ∀ (l acc acc' : List Expr), (∀ x ∈ l, P x) → (∀ x ∈ acc, P x) → vecDedup eq l acc = .ok acc' →
      (∀ x ∈ acc', P x) ∧ ((acc ≠ [] ∨ l ≠ []) → acc' ≠ []) := by
  intro l
  induction l with
  | nil =>
    intro acc acc' _ ha h
    simp only [vecDedup] at h
    cases h
    exact ⟨ha, (by intro h; rcases h with h | h; exact h; exact absurd rfl h)⟩
  | cons x tl ih =>
    intro acc acc' hl ha h
    simp only [vecDedup] at h
    cases hin : vecIn eq x acc with
    | error e => rw [hin] at h; cases h
    | ok b =>
      rw [hin] at h
      simp only [bind, Except.bind] at h
      have htl : ∀ y ∈ tl, P y := fun y hy => hl y (List.mem_cons_of_mem _ hy)
      cases b with
      | true =>
        simp only [if_true] at h
        obtain ⟨r1, r2⟩ := ih acc acc' htl ha h
        refine ⟨r1, fun _ => r2 (Or.inl ?_)⟩
        -- `x in acc` can only be true for a non-empty `acc`
        intro hnil
        subst hnil
        simp [vecIn] at hin
      | false =>
        simp only [Bool.false_eq_true, if_false] at h
        have hacc : ∀ y ∈ acc ++ [x], P y := by
          intro y hy
          rcases List.mem_append.mp hy with hy | hy
          · exact ha y hy
          · simp only [List.mem_singleton] at hy; subst hy; exact hl _ List.mem_cons_self
        obtain ⟨r1, r2⟩ := ih (acc ++ [x]) acc' htl hacc h
        refine ⟨r1, fun _ => r2 (Or.inl ?_)⟩
        intro hnil
        have := (List.append_eq_nil_iff.mp hnil).2
        cases this

/-- postcondition for the rule chains that may decline (`none`) -/
def PostO (s : Nat) (r : R (Option Expr)) : Prop := ∀ e, r = .ok (some e) → WF e ∧ e.size = s

theorem PostO_error (s : Nat) (k : Err) : PostO s (.error k) := by intro e h; cases h
theorem PostO_none (s : Nat) : PostO s (pure none) := by intro e h; cases h
theorem PostO_some {s : Nat} {e : Expr} (h1 : WF e) (h2 : e.size = s) : PostO s (pure (some e)) := by
  intro e' h; cases h; exact ⟨h1, h2⟩
theorem PostO_bind {α : Type} {s : Nat} (x : R α) (f : α → R (Option Expr)) (h : ∀ a, x = .ok a → PostO s (f a)) :
    PostO s (x >>= f) := by
  intro e he
  cases x with
  | error k => cases he
  | ok a => exact h a rfl e he

theorem length_pyRange (a b : Int) : (pyRange a b).length = (b - a).toNat := by simp [pyRange]

theorem foldl_size_ones (l : List Expr) (h : ∀ x ∈ l, x.size = 1) : l.foldl (fun a x => a + x.size) 0 = l.length := by
  induction l with
  | nil => rfl
  | cons x tl ih =>
    simp only [List.foldl_cons, Nat.zero_add, List.length_cons]
    rw [foldl_add_size, h x List.mem_cons_self, ih (fun y hy => h y (List.mem_cons_of_mem _ hy))]
    omega

theorem WF_setSf_if (c : Expr) (sf : Bool) (h : WF c) : WF (if c.isCmp = true then c.setSf sf else c) := by
  split
  · exact (WF_setSf _ _).mpr h
  · exact h

theorem size_setSf_if (c : Expr) (sf : Bool) : (if c.isCmp = true then c.setSf sf else c).size = c.size := by
  split <;> simp

theorem Disj_nil (n : Nat) : Disj n [] :=
  ⟨(by intro p hp; cases hp), (by intro b; simp)⟩

theorem checkSlice_ok {n : Nat} {a b : Int} (h : checkSlice n a b = .ok ()) : 0 ≤ a ∧ a < b ∧ b ≤ n := by
  unfold checkSlice at h
  split at h
  · cases h
  · split at h
    · cases h
    · rename_i h1 h2
      simp only [Bool.or_eq_true, decide_eq_true_eq, not_or, not_lt, not_le] at h1 h2
      omega

variable (cfg : Cfg)

theorem widthIH_zero : WidthIH cfg 0 := by
  constructor
  all_goals intros
  all_goals first
    | (rw [simplify.eq_def]; exact Post_error _ _)
    | (rw [eqn1.eq_def]; exact Post_error _ _)
    | (rw [eqn2.eq_def]; exact Post_error _ _)
    | (rename_i h; rw [eqn2norm.eq_def] at h; cases h)
    | (rename_i h; rw [normL.eq_def] at h; cases h)
    | (rename_i h; rw [normR.eq_def] at h; cases h)
    | (rename_i h; rw [eqn2cst.eq_def] at h; cases h)
    | (rw [eqn2snd.eq_def]; exact Post_error _ _)
    | (rw [eqn2tail.eq_def]; exact Post_error _ _)
    | (rw [oper.eq_def]; exact Post_error _ _)
    | (rw [operU.eq_def]; exact Post_error _ _)
    | (rw [apiNeg.eq_def]; exact Post_error _ _)
    | (rw [apiNot.eq_def]; exact Post_error _ _)
    | (rw [api.eq_def]; exact Post_error _ _)
    | (rw [apiExp.eq_def]; exact Post_error _ _)
    | (rw [callOp.eq_def]; exact Post_error _ _)
    | (rw [callUop.eq_def]; exact Post_error _ _)
    | (rw [helperCmp.eq_def]; exact Post_error _ _)
    | (rw [helperRot.eq_def]; exact Post_error _ _)
    | (rw [getitem.eq_def]; exact Post_error _ _)
    | (rw [slicer.eq_def]; exact Post_error _ _)
    | (rw [mkSlc.eq_def]; exact Post_error _ _)
    | (rename_i h; rw [setitem.eq_def] at h; cases h)
    | (rw [composer.eq_def]; exact Post_error _ _)
    | (rw [extendExp.eq_def]; exact Post_error _ _)

section steps
variable {cfg} {fuel : Nat} (ih : WidthIH cfg fuel)
include ih

theorem callUop_step (o : Op) (r : Expr) (hr : WF r) : Post r.size (callUop cfg (fuel + 1) o r) := by
  rw [callUop.eq_def]; dsimp only
  split
  · exact ih.apiNeg r hr
  · exact ih.apiNot r hr
  · exact Post_ok hr rfl
  · exact Post_error _ _

theorem operU_step (o : Op) (r : Expr) (hr : WF r) : Post r.size (operU cfg (fuel + 1) o r) := by
  rw [operU.eq_def]; dsimp only
  have : WF (mkUop o r) := by
    simp only [mkUop, WF]; exact ⟨WF_size_pos r hr, hr, trivial⟩
  exact ih.simplify {} (mkUop o r) this

theorem apiNeg_step (x : Expr) (hx : WF x) : Post x.size (apiNeg cfg (fuel + 1) x) := by
  rw [apiNeg.eq_def]; dsimp only
  split
  · exact Post_ok (WF_mkCst _ _ (WF_size_pos _ hx)) rfl
  · exact ih.operU _ _ hx

theorem apiNot_step (x : Expr) (hx : WF x) : Post x.size (apiNot cfg (fuel + 1) x) := by
  rw [apiNot.eq_def]; dsimp only
  split
  · exact Post_ok (WF_mkCst _ _ (WF_size_pos _ hx)) rfl
  · exact ih.operU _ _ hx

theorem oper_step (o : Op) (l r : Expr) (hl : WF l) (hr : WF r) (h4 : o.type = 4 → l.size = r.size) :
    Post (resSize o l) (oper cfg (fuel + 1) o l r) := by
  rw [oper.eq_def]; dsimp only
  apply Post_bind
  intro e he
  obtain ⟨h1, h2⟩ := mkOp_spec o l r e hl hr h4 he
  exact h2 ▸ ih.simplify {} e h1

theorem apiExp_step (o : Op) (l r : Expr) (hl : WF l) (hr : WF r) (h4 : o.type = 4 → l.size = r.size) :
    Post (resSize o l) (apiExp cfg (fuel + 1) o l r) := by
  rw [apiExp.eq_def]; dsimp only
  split <;> first
    | exact ih.oper _ l r hl hr h4
    | (split
       · first
         | exact Post_ok WF_bit1 (by simp [resSize, Op.type])
         | exact Post_ok WF_bit0 (by simp [resSize, Op.type])
       · exact ih.oper _ l r hl hr h4)

theorem api_step (o : Op) (l r : Expr) (hl : WF l) (hr : WF r) (h4 : o.type = 4 → l.size = r.size) :
    Post (resSize o l) (api cfg (fuel + 1) o l r) := by
  rw [api.eq_def]; dsimp only
  split
  · rename_i lv ls lf
    split
    · exact Post_error _ _
    · split
      · rename_i rv rs rf
        refine Post_of_eq (cstApi_post o _ _ _ _ _ _ hl.1) ?_
        simp [resSize]
      · have hl' : WF (cst lv ls (if (o == Op.lsr) = true then false else if (o == Op.asr) = true then true else lf)) := hl
        have := ih.apiExp o _ r hl' hr h4
        simpa [resSize] using this
  · exact ih.apiExp o l r hl hr h4

theorem helperCmp_step (o : Op) (x y : Expr) (hx : WF x) (hy : WF y) (hs : x.size = y.size) (ho : o.type = 4) :
    Post 1 (helperCmp cfg (fuel + 1) o x y) := by
  rw [helperCmp.eq_def]; dsimp only
  split
  · have := ih.api (if (o == Op.ltu) = true then Op.lt else Op.ge) (x.setSf false) (y.setSf false)
      ((WF_setSf _ _).mpr hx) ((WF_setSf _ _).mpr hy) (by intro _; simpa using hs)
    have e : resSize (if (o == Op.ltu) = true then Op.lt else Op.ge) (x.setSf false) = 1 := by
      split <;> simp [resSize, Op.type]
    exact e ▸ this
  · intro e he
    have := mkOp_spec o x y e hx hy (fun _ => hs) he
    simpa [resSize, ho] using this

theorem helperRot_step (o : Op) (x n : Expr) (hx : WF x) (hn : WF n) (ho : o.type = 8) :
    Post x.size (helperRot cfg (fuel + 1) o x n) := by
  rw [helperRot.eq_def]; dsimp only
  have hx' : WF (x.setSf false) := (WF_setSf _ _).mpr hx
  have hc : ∀ k : Nat, WF (mkCst (k : Int) x.size) := fun k => WF_mkCst _ _ (WF_size_pos _ hx)
  have hcn : WF (mkCst (x.size : Int) n.size) := WF_mkCst _ _ (WF_size_pos _ hn)
  have lsr8 : Op.lsr.type = 8 := rfl
  have lsl8 : Op.lsl.type = 8 := rfl
  -- the common tail: `t1 | t2` with both of the width of `x`
  have tail : ∀ t1 t2 : Expr, WF t1 → t1.size = x.size → WF t2 → t2.size = x.size →
      Post x.size (api cfg fuel Op.or t1 t2) := by
    intro t1 t2 w1 s1 w2 s2
    have := ih.api Op.or t1 t2 w1 w2 (by intro h; simp [Op.type] at h)
    rw [resSize_shift Op.or t1 (Or.inr (Or.inl rfl)), s1] at this
    exact this
  split
  · split
    · apply Post_bind; intro t1 ht1
      apply Post_bind; intro t2 ht2
      have h1 := ih.api Op.lsr x _ hx (hc _) (by intro h; simp [Op.type] at h) t1 ht1
      have h2 := ih.api Op.lsl _ _ hx' (hc _) (by intro h; simp [Op.type] at h) t2 ht2
      rw [resSize_shift _ _ (Or.inl lsr8)] at h1
      rw [resSize_shift _ _ (Or.inl lsl8), size_setSf] at h2
      exact tail t1 t2 h1.1 h1.2 h2.1 h2.2
    · apply Post_bind; intro t1 ht1
      apply Post_bind; intro t2 ht2
      have h1 := ih.api Op.lsl x _ hx (hc _) (by intro h; simp [Op.type] at h) t1 ht1
      have h2 := ih.api Op.lsr _ _ hx (hc _) (by intro h; simp [Op.type] at h) t2 ht2
      rw [resSize_shift _ _ (Or.inl lsl8)] at h1
      rw [resSize_shift _ _ (Or.inl lsr8)] at h2
      exact tail t1 t2 h1.1 h1.2 h2.1 h2.2
  · intro e he
    have := mkOp_spec o x n e hx hn (by intro h; omega) he
    rw [resSize_shift o x (Or.inl ho)] at this
    exact this

theorem callOp_step (o : Op) (l r : Expr) (hl : WF l) (hr : WF r) (h4 : o.type = 4 → l.size = r.size) :
    Post (resSize o l) (callOp cfg (fuel + 1) o l r) := by
  rw [callOp.eq_def]; dsimp only
  split
  · have := ih.helperCmp Op.ltu _ _ hl hr (h4 rfl) rfl
    simpa [resSize, Op.type] using this
  · have := ih.helperCmp Op.geu _ _ hl hr (h4 rfl) rfl
    simpa [resSize, Op.type] using this
  · have := ih.helperRot Op.ror _ _ hl hr rfl
    simpa [resSize, Op.type] using this
  · have := ih.helperRot Op.rol _ _ hl hr rfl
    simpa [resSize, Op.type] using this
  · exact Post_error _ _
  · exact ih.api o _ _ hl hr h4

theorem giSpec_of_ih : GiSpec (fun y a b => getitem cfg fuel y (a : Int) (b : Int)) := by
  intro x a b r hx hab hb h
  have := ih.getitem x a b hx r h
  refine ⟨this.1, ?_⟩
  rw [this.2]; omega

theorem siSpec_of_ih : SiSpec (fun c a b v => setitem cfg fuel c (a : Int) (b : Int) v) := by
  intro n sf ps a b v r hd hw hv h
  obtain ⟨ps', h1, h2, h3, h4, h5, h6, h7⟩ := ih.setitem n sf ps a b v r hd hw hv h
  refine ⟨ps', h1, h2, h3, by omega, by omega, ?_⟩
  intro x
  rw [h7 x]
  split_ifs <;> omega

theorem mkSlc_step (x : Expr) (pos size : Nat) (hx : WF x) (hs : 0 < size) (hp : pos + size ≤ x.size) :
    Post size (mkSlc cfg (fuel + 1) x pos size) := by
  rw [mkSlc.eq_def]; dsimp only
  split
  · apply Post_bind; intro res hres
    have := ih.getitem _ _ _ hx res hres
    have hsz : res.size = size := by rw [this.2]; omega
    split
    · rename_i x2 p2 s2 f2 r2 k2
      have hw := this.1
      simp only [WF] at hw
      simp only [size_slc] at hsz
      subst hsz
      exact Post_pure (by simp only [WF]; exact hw) rfl
    · exact Post_pure (by simp only [WF]; exact ⟨hx, hs, hp⟩) rfl
  · exact Post_ok (by simp only [WF]; exact ⟨hx, hs, hp⟩) rfl

theorem slicer_step (x : Expr) (pos size : Nat) (hx : WF x) (hs : 0 < size) (hp : pos + size ≤ x.size) :
    Post size (slicer cfg (fuel + 1) x pos size) := by
  rw [slicer.eq_def]; dsimp only
  split
  · exact Post_ok (WF_mkTop hs) rfl
  · split
    · rename_i h
      simp only [Bool.and_eq_true, beq_iff_eq] at h
      exact Post_ok hx h.2.symm
    · split
      · apply Post_bind; intro res hres
        have := ih.getitem _ _ _ hx res hres
        exact Post_pure ((WF_setSf _ _).mpr this.1) (by rw [size_setSf, this.2]; omega)
      · exact ih.mkSlc x pos size hx hs hp

theorem getitem_step (x : Expr) (a b : Int) (hx : WF x) : Post (b - a).toNat (getitem cfg (fuel + 1) x a b) := by
  rw [getitem.eq_def]; dsimp only
  apply Post_bind; intro u hu
  obtain ⟨h0, hab, hbn⟩ := checkSlice_ok hu
  have e : (b - a).toNat = b.toNat - a.toNat := by omega
  rw [e]
  have hpos : 0 < b.toNat - a.toNat := by omega
  split
  · -- cst
    exact Post_pure (WF_mkCst _ _ hpos) rfl
  · -- comp
    rename_i size sf parts
    simp only [WF] at hx
    obtain ⟨hsz, ht, hwp⟩ := hx
    have hwp' := (WFParts_iff parts).mp hwp
    simp only [size_comp] at hbn
    split
    · rename_i p hf
      have hm := findKey_some_mem hf
      have := ht.1 _ hm
      exact Post_pure (hwp' _ hm) (by simpa using this.2.2)
    · split
      · rename_i h
        simp only [Bool.and_eq_true, beq_iff_eq] at h
        exact Post_pure (by simp only [WF]; exact ⟨hsz, ht, hwp⟩) (by simp only [size_comp]; omega)
      · apply Post_bind; intro res hres
        have hd0 : Disj (b.toNat - a.toNat) [] := Disj_nil _
        have := compGetLoop_spec _ _ (giSpec_of_ih ih) (siSpec_of_ih ih) size parts ht hwp'
          b.toNat (b.toNat - a.toNat) a.toNat (by omega) (by omega) sf (b.toNat - a.toNat) 0 [] res
          (by omega) (by omega) hd0 (by intro p hp; cases hp) (by intro x; simp [cnt]) (by simpa using hres)
        obtain ⟨rps, rfl, htl, hwr⟩ := this
        simp only
        obtain ⟨r1, r2, r3⟩ := restruct_spec _ rps htl.disj hwr
        have htr : Tiles (b.toNat - a.toNat) (restruct rps) :=
          tiles_of_disj_cnt r1 (fun x hx => by rw [r3 x]; exact htl.2 x hx)
        split
        · exact Post_error _ _
        · rename_i lo hi p heq
          rw [heq] at htr r2
          exact Post_pure (r2 _ List.mem_cons_self) (Tiles.single hpos htr)
        · exact Post_pure (by simp only [WF]; exact ⟨hpos, htr, (WFParts_iff _).mpr r2⟩) rfl
  · -- slc
    rename_i x' p s f r k
    simp only [WF] at hx
    simp only [size_slc] at hbn
    split
    · rename_i h
      simp only [Bool.and_eq_true, beq_iff_eq] at h
      exact Post_pure (by simp only [WF]; exact hx) (by simp only [size_slc]; omega)
    · exact ih.slicer x' _ _ hx.1 hpos (by omega)
  · -- mem
    intro r hr
    have := memGetitem_spec _ _ _ r hx (by omega) (by omega) hr
    exact this
  · -- vec
    rename_i l s f
    simp only [WF] at hx
    simp only [size_vec] at hbn
    apply Post_bind; intro l' hl'
    have := mapM_spec (fun y => getitem cfg fuel y a b) (fun y => WF y) (fun y => WF y ∧ y.size = b.toNat - a.toNat)
      (by intro y r hy h; have := ih.getitem y a b hy r h; exact ⟨this.1, by rw [this.2]; omega⟩)
      l l' (fun y hy => ((WFList_iff l s).mp hx.2.2 y hy).1) hl'
    intro v hv
    exact mkVec_spec l' _ v hpos (by intro h; have := this.2; rw [h] at this; exact hx.2.1 (List.length_eq_zero_iff.mp this.symm)) this.1 hv
  · -- vecw
    rename_i l s f
    simp only [WF] at hx
    simp only [size_vecw] at hbn
    apply Post_bind; intro l' hl'
    have := mapM_spec (fun y => getitem cfg fuel y a b) (fun y => WF y) (fun y => WF y ∧ y.size = b.toNat - a.toNat)
      (by intro y r hy h; have := ih.getitem y a b hy r h; exact ⟨this.1, by rw [this.2]; omega⟩)
      l l' (fun y hy => ((WFList_iff l s).mp hx.2.2 y hy).1) hl'
    apply Post_bind; intro v hv
    have hvs := mkVec_spec l' _ v hpos (by intro h; have := this.2; rw [h] at this; exact hx.2.1 (List.length_eq_zero_iff.mp this.symm)) this.1 hv
    split
    · rename_i l'' s'' f''
      have hw := hvs.1
      simp only [WF] at hw
      exact Post_pure (by simp only [WF]; exact hw) (by simpa using hvs.2)
    · exact Post_error _ _
  · -- everything else: slicer
    exact ih.slicer x _ _ hx hpos (by omega)

/-- flattening a comp `v` into `c[sta:…]`: the fold of `comp.__setitem__` over `v.parts`. -/
theorem setitem_fold (n : Nat) (sf : Bool) (sta : Nat) :
    ∀ (L : List Part) (ps : List Part) (r : Expr), Disj n ps → (∀ p ∈ ps, WF p.2.2) → (∀ p ∈ L, WF p.2.2) →
      L.foldlM (fun (c : Expr) (p : Part) => setitem cfg fuel c ((sta + p.1 : Nat) : Int) ((sta + p.2.1 : Nat) : Int) p.2.2)
        (Expr.comp n sf ps) = .ok r →
      ∃ ps', r = .comp n sf ps' ∧ Disj n ps' ∧ (∀ p ∈ ps', WF p.2.2) ∧
        ∀ x, cnt x ps' = if (∃ p ∈ L, sta + p.1 ≤ x ∧ x < sta + p.2.1) then 1 else cnt x ps := by
  intro L
  induction L with
  | nil =>
    intro ps r hd hw _ h
    simp only [List.foldlM_nil, pure, Except.pure] at h
    cases h
    exact ⟨ps, rfl, hd, hw, by intro x; simp⟩
  | cons q tl ihl =>
    intro ps r hd hw hL h
    rw [List.foldlM_cons] at h
    cases h1 : setitem cfg fuel (Expr.comp n sf ps) ((sta + q.1 : Nat) : Int) ((sta + q.2.1 : Nat) : Int) q.2.2 with
    | error e => rw [h1] at h; cases h
    | ok c1 =>
      rw [h1] at h
      simp only [bind, Except.bind] at h
      obtain ⟨ps1, rfl, hd1, hw1, _, _, _, hc1⟩ := ih.setitem n sf ps _ _ _ c1 hd hw (hL q List.mem_cons_self) h1
      obtain ⟨ps', hr, hd', hw', hc'⟩ := ihl ps1 r hd1 hw1 (fun p hp => hL p (List.mem_cons_of_mem _ hp)) h
      refine ⟨ps', hr, hd', hw', ?_⟩
      intro x
      rw [hc' x, hc1 x]
      by_cases hq : sta + q.1 ≤ x ∧ x < sta + q.2.1
      · have e1 : (∃ p ∈ q :: tl, sta + p.1 ≤ x ∧ x < sta + p.2.1) := ⟨q, List.mem_cons_self, hq⟩
        have e2 : ((sta + q.1 : Nat) : Int) ≤ (x : Int) ∧ (x : Int) < ((sta + q.2.1 : Nat) : Int) := by omega
        simp only [e1, e2, if_true]
        split <;> rfl
      · have e2 : ¬ (((sta + q.1 : Nat) : Int) ≤ (x : Int) ∧ (x : Int) < ((sta + q.2.1 : Nat) : Int)) := by omega
        simp only [e2, if_false]
        by_cases ht : ∃ p ∈ tl, sta + p.1 ≤ x ∧ x < sta + p.2.1
        · obtain ⟨p, hp, hpx⟩ := ht
          have e1 : (∃ p ∈ q :: tl, sta + p.1 ≤ x ∧ x < sta + p.2.1) := ⟨p, List.mem_cons_of_mem _ hp, hpx⟩
          have e3 : (∃ p ∈ tl, sta + p.1 ≤ x ∧ x < sta + p.2.1) := ⟨p, hp, hpx⟩
          simp only [e1, e3, if_true]
        · have e1 : ¬ (∃ p ∈ q :: tl, sta + p.1 ≤ x ∧ x < sta + p.2.1) := by
            rintro ⟨p, hp, hpx⟩
            rcases List.mem_cons.mp hp with rfl | hp
            · exact hq hpx
            · exact ht ⟨p, hp, hpx⟩
          simp only [e1, ht, if_false]

theorem setitem_step (n : Nat) (sf : Bool) (ps : List Part) (a b : Int) (v r : Expr) (hd : Disj n ps)
    (hw : ∀ p ∈ ps, WF p.2.2) (hv : WF v) (h : setitem cfg (fuel + 1) (.comp n sf ps) a b v = .ok r) :
    ∃ ps', r = .comp n sf ps' ∧ Disj n ps' ∧ (∀ p ∈ ps', WF p.2.2) ∧ 0 ≤ a ∧ a < b ∧ b ≤ n ∧
      ∀ x : Nat, cnt x ps' = if a ≤ (x : Int) ∧ (x : Int) < b then 1 else cnt x ps := by
  rw [setitem.eq_def] at h; dsimp only at h
  cases hcs : checkSlice n a b with
  | error e => rw [hcs] at h; cases h
  | ok u =>
    rw [hcs] at h
    simp only [bind, Except.bind] at h
    obtain ⟨h0, hab, hbn⟩ := checkSlice_ok hcs
    split at h
    · cases h
    · rename_i hsz
      simp only [bne_iff_ne, ne_eq, Decidable.not_not] at hsz
      simp only [pure, Except.pure] at h
      split at h
      · -- v is a comp: flatten
        rename_i vs vsf vparts
        simp only [WF] at hv
        obtain ⟨hvpos, hvt, hvw⟩ := hv
        simp only [size_comp] at hsz
        obtain ⟨ps', hr, hd', hw', hc'⟩ := setitem_fold ih n sf a.toNat vparts ps r hd hw ((WFParts_iff _).mp hvw) (by simpa using h)
        refine ⟨ps', hr, hd', hw', h0, hab, hbn, ?_⟩
        intro x
        rw [hc' x]
        have key : (∃ p ∈ vparts, a.toNat + p.1 ≤ x ∧ x < a.toNat + p.2.1) ↔ (a ≤ (x : Int) ∧ (x : Int) < b) := by
          constructor
          · rintro ⟨p, hp, h1, h2⟩
            have := hvt.1 p hp
            omega
          · intro hx
            have hlt : x - a.toNat < vs := by omega
            have hcnt := hvt.2 (x - a.toNat) hlt
            have hsome := cover_isSome_of_cnt (b := x - a.toNat) (ps := vparts) (by show 1 ≤ cnt _ _; change cnt _ _ = 1 at hcnt; omega)
            cases hcv : cover (x - a.toNat) vparts with
            | none => rw [hcv] at hsome; cases hsome
            | some p =>
              obtain ⟨hm, h1, h2⟩ := cover_spec hcv
              exact ⟨p, hm, by omega, by omega⟩
        by_cases hx : (a ≤ (x : Int) ∧ (x : Int) < b)
        · rw [if_pos (key.mpr hx), if_pos hx]
        · rw [if_neg (mt key.mp hx), if_neg hx]
      · -- a single part
        cases hsp : setPart (fun y a b => getitem cfg fuel y (a : Int) (b : Int)) a.toNat b.toNat v ps with
        | error e => rw [hsp] at h; simp only at h; cases h
        | ok ps' =>
          rw [hsp] at h
          simp only at h
          cases h
          obtain ⟨r1, r2, r3⟩ := setPart_spec _ (giSpec_of_ih ih) n a.toNat b.toNat v ps ps' hd hw hv hsz (by omega) (by omega) hsp
          refine ⟨ps', rfl, r1, r2, h0, hab, hbn, ?_⟩
          intro x
          rw [r3 x]
          split_ifs <;> omega

/-- the loop of `composer`: parts are laid down one after the other from position 0 -/
theorem composer_fold (s : Nat) (sf : Bool) :
    ∀ (L : List Expr) (ps : List Part) (pos : Nat) (c : Expr) (pos' : Nat), Disj s ps → (∀ p ∈ ps, WF p.2.2) →
      (∀ x ∈ L, WF x) → (∀ x, cnt x ps = if x < pos then 1 else 0) →
      L.foldlM (fun (st : Expr × Nat) (x : Expr) => do
          let c ← setitem cfg fuel st.1 (st.2 : Int) ((st.2 + x.size : Nat) : Int) x
          pure (c, st.2 + x.size)) (Expr.comp s sf ps, pos) = .ok (c, pos') →
      ∃ ps', c = .comp s sf ps' ∧ Disj s ps' ∧ (∀ p ∈ ps', WF p.2.2) ∧ pos' = pos + L.foldl (fun a x => a + x.size) 0
        ∧ (∀ x, cnt x ps' = if x < pos' then 1 else 0) ∧ (L ≠ [] → pos' ≤ s) := by
  intro L
  induction L with
  | nil =>
    intro ps pos c pos' hd hw _ hc h
    simp only [List.foldlM_nil, pure, Except.pure] at h
    cases h
    exact ⟨ps, rfl, hd, hw, by simp, hc, by intro h; exact absurd rfl h⟩
  | cons y tl ihl =>
    intro ps pos c pos' hd hw hL hc h
    rw [List.foldlM_cons] at h
    simp only at h
    cases h1 : setitem cfg fuel (Expr.comp s sf ps) (pos : Int) ((pos + y.size : Nat) : Int) y with
    | error e => rw [h1] at h; cases h
    | ok c1 =>
      rw [h1] at h
      simp only [bind, Except.bind, pure, Except.pure] at h
      obtain ⟨ps1, rfl, hd1, hw1, _, _, hle, hc1⟩ := ih.setitem s sf ps _ _ _ c1 hd hw (hL y List.mem_cons_self) h1
      have hc1' : ∀ x, cnt x ps1 = if x < pos + y.size then 1 else 0 := by
        intro x
        rw [hc1 x, hc x]
        split_ifs <;> omega
      obtain ⟨ps', hr, hd', hw', hp', hc', hle'⟩ := ihl ps1 (pos + y.size) c pos' hd1 hw1
        (fun x hx => hL x (List.mem_cons_of_mem _ hx)) hc1' h
      refine ⟨ps', hr, hd', hw', ?_, hc', ?_⟩
      · rw [hp']; simp only [List.foldl_cons, Nat.zero_add]; rw [foldl_add_size tl y.size]; omega
      · intro _
        by_cases ht : tl = []
        · subst ht; simp at hp'; omega
        · exact hle' ht

theorem composer_step (parts : List Expr) (hp : ∀ x ∈ parts, WF x) :
    Post (parts.foldl (fun a x => a + x.size) 0) (composer cfg (fuel + 1) parts) := by
  rw [composer.eq_def]; dsimp only
  split
  · exact Post_error _ _
  · rename_i x
    exact Post_ok (hp x List.mem_cons_self) (by simp)
  · rename_i hne1 hne2
    apply Post_bind; intro st hst
    obtain ⟨c, pos'⟩ := st
    have hne : parts ≠ [] := by intro h; exact hne1 h
    obtain ⟨ps', rfl, hd', hw', hp', hc', hle'⟩ := composer_fold ih _ _ parts [] 0 c pos' (Disj_nil _)
      (by intro p hp; cases hp) hp (by intro x; simp [cnt]) (by simpa using hst)
    simp only [Nat.zero_add] at hp'
    have hpos : 0 < parts.foldl (fun a x => a + x.size) 0 := by
      cases parts with
      | nil => exact absurd rfl hne
      | cons y tl =>
        simp only [List.foldl_cons, Nat.zero_add]
        rw [foldl_add_size]
        have := WF_size_pos y (hp y List.mem_cons_self)
        omega
    have htl : Tiles (parts.foldl (fun a x => a + x.size) 0) ps' := by
      refine tiles_of_disj_cnt hd' ?_
      intro x hx
      rw [hc' x, hp']; simp [hx]
    have := ih.simplify {} (Expr.comp (parts.foldl (fun a x => a + x.size) 0)
        (match parts.getLast? with | some x => x.sf | none => false) ps')
      (by simp only [WF]; exact ⟨hpos, htl, (WFParts_iff _).mpr hw'⟩)
    exact this

theorem extendExp_step (sign : Bool) (x : Expr) (size : Nat) (hx : WF x) :
    Post (max size x.size) (extendExp cfg (fuel + 1) sign x size) := by
  rw [extendExp.eq_def]; dsimp only
  have hxp := WF_size_pos x hx
  split
  · rename_i h
    exact Post_ok hx (by omega)
  · rename_i h
    apply Post_bind; intro sb hsb
    have hs := ih.getitem x _ _ hx sb hsb
    have hs1 : sb.size = 1 := by rw [hs.2]; omega
    have hxt : 0 < size - x.size := by omega
    have hxxw : WF (extFill sign sb (size - x.size)) ∧ (extFill sign sb (size - x.size)).size = size - x.size := by
      unfold extFill
      split
      · simp only [WF, size_tst, size_mkCst']
        exact ⟨⟨hxt, hs.1, WF_mkCst _ _ hxt, WF_mkCst _ _ hxt, hs1, trivial, trivial⟩, trivial⟩
      · simp only [WF, size_cst]
        exact ⟨⟨hxt, Nat.two_pow_pos _⟩, trivial⟩
    have := ih.composer [x, extFill sign sb (size - x.size)]
      (by intro y hy; simp at hy; rcases hy with rfl | rfl; exact hx; exact hxxw.1)
    simp only [List.foldl_cons, List.foldl_nil, Nat.zero_add, hxxw.2] at this
    have e : x.size + (size - x.size) = max size x.size := by omega
    rw [e] at this
    exact this

theorem eqn1_step (o : Op) (r : Expr) (size : Nat) (sf : Bool) (prop : Nat) (hr : WF r) (hsz : size = r.size) :
    Post size (eqn1 cfg (fuel + 1) o r size sf prop) := by
  rw [eqn1.eq_def]; dsimp only
  have hself : Post size (Except.ok (uop o r size sf prop)) :=
    Post_ok (by simp only [WF]; exact ⟨hsz ▸ WF_size_pos r hr, hr, hsz⟩) rfl
  split
  · apply Post_bind; intro res hres
    have := ih.callUop o _ hr res hres
    exact Post_pure ((WF_setSf _ _).mpr this.1) (by rw [size_setSf, this.2, hsz])
  · rename_i l s f
    apply Post_bind; intro l' hl'
    simp only [WF] at hr
    simp only [size_vec] at hsz
    have := mapM_spec (fun y => callUop cfg fuel o y) (fun y => WF y ∧ y.size = s) (fun y => WF y ∧ y.size = s)
      (by intro y r' hy h; have := ih.callUop o y hy.1 r' h; exact ⟨this.1, by rw [this.2]; exact hy.2⟩)
      l l' ((WFList_iff l s).mp hr.2.2) hl'
    intro v hv
    have := mkVec_spec l' s v hr.1 (by intro h; have h2 := this.2; rw [h] at h2; exact hr.2.1 (List.length_eq_zero_iff.mp h2.symm)) this.1 hv
    exact hsz ▸ this
  · rename_i ro rr rs rf rp
    simp only [WF] at hr
    simp only [size_uop] at hsz
    split
    · exact Post_ok hr.2.1 (by omega)
    · have := ih.apiNeg rr hr.2.1
      exact Post_of_eq this (by omega)
    · exact hself
  · rename_i ro rl rr rs rf rp
    have hr' := (WF_op_iff _ _ _ _ _ _).mp hr
    simp only [size_op] at hsz
    split
    · split
      · rename_i x hx
        obtain ⟨_, t2, t3, _, n2, n3⟩ := pm_types hx
        apply Post_bind; intro l hl
        have hlw := ih.apiNeg rl hr'.2.2.1 l hl
        have := ih.api x l rr hlw.1 hr'.2.2.2.1 (by intro h; omega)
        rw [resSize_type1 l t3 n3, hlw.2] at this
        refine Post_of_eq this ?_
        rw [hsz, hr'.2.2.2.2.1, resSize_type1 rl t2 n2]
      · exact hself
    · split
      · rename_i hn
        simp only [Bool.and_eq_true, beq_iff_eq] at hn
        have h1 : size = 1 := by rw [hsz, hr'.2.2.2.2.1]; simp [resSize, hn.2]
        have heq : rl.size = rr.size := hr'.2.2.2.2.2 (by omega)
        subst h1
        split
        all_goals first
          | exact hself
          | (refine Post_of_eq (ih.api _ rl rr hr'.2.2.1 hr'.2.2.2.1 (fun _ => heq)) ?_; simp [resSize, Op.type])
          | exact ih.helperCmp Op.geu rl rr hr'.2.2.1 hr'.2.2.2.1 heq rfl
          | exact ih.helperCmp Op.ltu rl rr hr'.2.2.1 hr'.2.2.2.1 heq rfl
      · exact hself
  · exact hself

theorem eqn2tail_step (opts : Opts) (o : Op) (l r : Expr) (size : Nat) (sf : Bool) (prop : Nat)
    (hw : WF (.op o l r size sf prop)) : Post size (eqn2tail cfg (fuel + 1) opts o l r size sf prop) := by
  rw [eqn2tail.eq_def]; dsimp only
  have hw' := (WF_op_iff _ _ _ _ _ _).mp hw
  obtain ⟨hpos, hp, hl, hr, hs, heq⟩ := hw'
  have last : Post size
      (if (l.render == r.render) = true then
        if (o == Op.neq || o == Op.lt || o == Op.gt) = true then Except.ok bit0
        else if (o == Op.eq || o == Op.le || o == Op.ge) = true then Except.ok (if sf = true then cst 1 1 true else bit1)
        else if (o == Op.sub || o == Op.xor) = true then Except.ok (cst 0 size false)
        else if (o == Op.and || o == Op.or) = true then Except.ok l
        else Except.ok (op o l r size sf prop)
      else Except.ok (op o l r size sf prop)) := by
    split
    · split
      · rename_i h
        refine Post_ok WF_bit0 ?_
        simp only [Bool.or_eq_true, beq_iff_eq] at h
        rcases h with (rfl | rfl) | rfl <;> simp [hs, resSize, Op.type]
      · split
        · rename_i h
          refine Post_ok (e := if sf = true then cst 1 1 true else bit1)
            (by split <;> simp [WF, bit1]) ?_
          have e1 : (if sf = true then cst 1 1 true else bit1).size = 1 := by split <;> rfl
          rw [e1]
          simp only [Bool.or_eq_true, beq_iff_eq] at h
          rcases h with (rfl | rfl) | rfl <;> simp [hs, resSize, Op.type]
        · split
          · exact Post_ok (by simp only [WF]; exact ⟨hpos, Nat.two_pow_pos _⟩) rfl
          · split
            · rename_i h
              refine Post_ok hl ?_
              simp only [Bool.or_eq_true, beq_iff_eq] at h
              rcases h with rfl | rfl <;> simp [hs, resSize, Op.type]
            · exact Post_ok hw rfl
    · exact Post_ok hw rfl
  split
  · rename_i ll ls lf
    simp only [WF] at hl
    apply Post_bind; intro xs hxs
    have := mapM_spec (fun y => callOp cfg fuel o y r) (fun y => WF y ∧ y.size = ls) (fun y => WF y ∧ y.size = size)
      (by
        intro y r' hy h
        have := ih.callOp o y r hy.1 hr (by intro h4; rw [hy.2]; exact heq (by omega)) r' h
        refine ⟨this.1, ?_⟩
        rw [this.2, hs]; exact resSize_congr o hy.2)
      ll xs ((WFList_iff ll ls).mp hl.2.2) hxs
    apply Post_bind; intro v hv
    have hvs := mkVec_spec xs size v hpos (by intro h; have h2 := this.2; rw [h] at h2; exact hl.2.1 (List.length_eq_zero_iff.mp h2.symm)) this.1 hv
    exact hvs.2 ▸ ih.simplify _ v hvs.1
  · rename_i rl rs rf _
    simp only [WF] at hr
    apply Post_bind; intro xs hxs
    have := mapM_spec (fun y => callOp cfg fuel o l y) (fun y => WF y ∧ y.size = rs) (fun y => WF y ∧ y.size = size)
      (by
        intro y r' hy h
        have := ih.callOp o l y hl hy.1 (by intro h4; rw [hy.2]; exact heq (by omega)) r' h
        exact ⟨this.1, by rw [this.2, hs]⟩)
      rl xs ((WFList_iff rl rs).mp hr.2.2) hxs
    apply Post_bind; intro v hv
    have hvs := mkVec_spec xs size v hpos (by intro h; have h2 := this.2; rw [h] at h2; exact hr.2.1 (List.length_eq_zero_iff.mp h2.symm)) this.1 hv
    exact hvs.2 ▸ ih.simplify _ v hvs.1
  · exact last

/-- a fold of `setitem`s whose values are computed on the way -/
theorem setitem_foldS (n : Nat) (sf : Bool) (step : Expr → Part → R Expr) :
    ∀ (L : List Part),
      (∀ c p r, p ∈ L → step c p = .ok r → ∃ v, WF v ∧ setitem cfg fuel c (p.1 : Int) (p.2.1 : Int) v = .ok r) →
      ∀ (ps : List Part) (r : Expr), Disj n ps → (∀ p ∈ ps, WF p.2.2) →
      L.foldlM step (Expr.comp n sf ps) = .ok r →
      ∃ ps', r = .comp n sf ps' ∧ Disj n ps' ∧ (∀ p ∈ ps', WF p.2.2) ∧
        ∀ x, cnt x ps' = if (∃ p ∈ L, p.1 ≤ x ∧ x < p.2.1) then 1 else cnt x ps := by
  intro L
  induction L with
  | nil =>
    intro _ ps r hd hw h
    simp only [List.foldlM_nil, pure, Except.pure] at h
    cases h
    exact ⟨ps, rfl, hd, hw, by intro x; simp⟩
  | cons q tl ihl =>
    intro hstep ps r hd hw h
    rw [List.foldlM_cons] at h
    cases h1 : step (Expr.comp n sf ps) q with
    | error e => rw [h1] at h; cases h
    | ok c1 =>
      rw [h1] at h
      simp only [bind, Except.bind] at h
      obtain ⟨v, hv, hset⟩ := hstep _ q c1 List.mem_cons_self h1
      obtain ⟨ps1, rfl, hd1, hw1, _, _, _, hc1⟩ := ih.setitem n sf ps _ _ _ c1 hd hw hv hset
      obtain ⟨ps', hr, hd', hw', hc'⟩ := ihl (fun c p r hp => hstep c p r (List.mem_cons_of_mem _ hp)) ps1 r hd1 hw1 h
      refine ⟨ps', hr, hd', hw', ?_⟩
      intro x
      rw [hc' x, hc1 x]
      by_cases hq : q.1 ≤ x ∧ x < q.2.1
      · have e1 : (∃ p ∈ q :: tl, p.1 ≤ x ∧ x < p.2.1) := ⟨q, List.mem_cons_self, hq⟩
        have e2 : ((q.1 : Nat) : Int) ≤ (x : Int) ∧ (x : Int) < ((q.2.1 : Nat) : Int) := by omega
        rw [if_pos e1, if_pos e2]
        split <;> rfl
      · have e2 : ¬ (((q.1 : Nat) : Int) ≤ (x : Int) ∧ (x : Int) < ((q.2.1 : Nat) : Int)) := by omega
        rw [if_neg e2]
        by_cases ht : ∃ p ∈ tl, p.1 ≤ x ∧ x < p.2.1
        · obtain ⟨p, hp, hpx⟩ := ht
          have e1 : (∃ p ∈ q :: tl, p.1 ≤ x ∧ x < p.2.1) := ⟨p, List.mem_cons_of_mem _ hp, hpx⟩
          have e3 : (∃ p ∈ tl, p.1 ≤ x ∧ x < p.2.1) := ⟨p, hp, hpx⟩
          rw [if_pos e1, if_pos e3]
        · have e1 : ¬ (∃ p ∈ q :: tl, p.1 ≤ x ∧ x < p.2.1) := by
            rintro ⟨p, hp, hpx⟩
            rcases List.mem_cons.mp hp with rfl | hp
            · exact hq hpx
            · exact ht ⟨p, hp, hpx⟩
          rw [if_neg e1, if_neg ht]

theorem eqn2snd_step (opts : Opts) (o : Op) (l : Expr) (rv rs : Nat) (rf : Bool) (size : Nat) (sf : Bool) (prop : Nat)
    (hw : WF (.op o l (.cst rv rs rf) size sf prop)) :
    Post size (eqn2snd cfg (fuel + 1) opts o l rv rs rf size sf prop) := by
  rw [eqn2snd.eq_def]; dsimp only
  obtain ⟨hpos, hp, hl, hr, hs, heq⟩ := (WF_op_iff _ _ _ _ _ _).mp hw
  have htail := ih.eqn2tail opts o l (.cst rv rs rf) size sf prop hw
  -- the `== bit` rules
  have bitrule : o.pm = o.pm → Post size
      (if (rs == 1 && o == Op.eq) = true then
          if (rv == 1) = true then Except.ok l else apiNot cfg fuel l
        else if (rs == 1 && o == Op.neq) = true then
          if (rv == 1) = true then apiNot cfg fuel l else Except.ok l
        else eqn2tail cfg fuel opts o l (cst rv rs rf) size sf prop) := by
    intro _
    have hsize : ∀ o', (o' = Op.eq ∨ o' = Op.neq) → o = o' → size = l.size ∧ l.size = 1 → True := fun _ _ _ _ => trivial
    split
    · rename_i h
      simp only [Bool.and_eq_true, beq_iff_eq] at h
      obtain ⟨h1, rfl⟩ := h
      have e1 : size = 1 := by rw [hs]; simp [resSize, Op.type]
      have e2 : l.size = 1 := by have := heq (by simp [Op.type]); simp only [size_cst] at this; omega
      split
      · exact Post_ok hl (by omega)
      · exact Post_of_eq (ih.apiNot l hl) (by omega)
    · split
      · rename_i h
        simp only [Bool.and_eq_true, beq_iff_eq] at h
        obtain ⟨h1, rfl⟩ := h
        have e1 : size = 1 := by rw [hs]; simp [resSize, Op.type]
        have e2 : l.size = 1 := by have := heq (by simp [Op.type]); simp only [size_cst] at this; omega
        split
        · exact Post_of_eq (ih.apiNot l hl) (by omega)
        · exact Post_ok hl (by omega)
      · exact htail
  split
  · -- l = op lo ll lr
    rename_i lo ll lr ls lf lp
    split
    · rename_i x hx
      obtain ⟨t1, t2, t3, n1, n2, n3⟩ := pm_types hx
      split
      · apply Post_bind; intro cc hcc
        obtain ⟨_, _, hll, hlr, hls, hleq⟩ := (WF_op_iff _ _ _ _ _ _).mp hl
        have hc := ih.api x lr (.cst rv rs rf) hlr hr (by intro h; omega) cc hcc
        rw [resSize_type1 lr t3 n3] at hc
        refine Post_pure ?_ rfl
        rw [WF_op_iff]
        rw [resSize_type1 _ t1 n1] at hs
        rw [resSize_type1 _ t2 n2] at hls
        simp only [size_op] at hs
        refine ⟨hpos, by omega, hll, hc.1, ?_, ?_⟩
        · rw [resSize_type1 _ t2 n2]; omega
        · intro _; rw [hc.2]; exact hleq (by omega)
      · exact Post_pure hw rfl
    · exact bitrule rfl
  · -- l = uop lo lr
    rename_i lo lr ls lf lp
    split
    · rename_i x hx
      obtain ⟨t1, t2, t3, n1, n2, n3⟩ := pm_types hx
      split
      · apply Post_bind; intro cc hcc
        have hl' := hl
        simp only [WF] at hl'
        have hc := ih.api x lr (.cst rv rs rf) hl'.2.1 hr (by intro h; omega) cc hcc
        rw [resSize_type1 lr t3 n3] at hc
        refine Post_pure ?_ rfl
        rw [WF_op_iff]
        rw [resSize_type1 _ t1 n1] at hs
        simp only [size_uop] at hs
        refine ⟨hpos, by omega, hl, hc.1, ?_, ?_⟩
        · rw [resSize_type1 _ t2 n2]; simp only [size_uop]; omega
        · intro _; rw [hc.2]; simp only [size_uop]; omega
      · exact Post_pure hw rfl
    · exact bitrule rfl
  · -- ptr
    split
    · exact Post_error _ _
    · exact htail
  · -- comp
    rename_i lsize lsf lparts
    split
    · rename_i hop
      simp only [Bool.or_eq_true, beq_iff_eq] at hop
      have ht2 : o.type = 2 ∧ o ≠ Op.mul2 := by rcases hop with (rfl | rfl) | rfl <;> simp [Op.type]
      have hl' := hl
      simp only [WF] at hl'
      obtain ⟨hlpos, hlt, hlw⟩ := hl'
      have hlw' := (WFParts_iff _).mp hlw
      have hsz : size = lsize := by rw [hs]; simp [resSize, ht2.1, ht2.2]
      apply Post_bind; intro cc hcc
      obtain ⟨ps', rfl, hd', hw', hc'⟩ := setitem_foldS ih lsize sf _ lparts (by
          intro c p r hp hstep
          cases h1 : getitem cfg fuel (cst rv rs rf) (p.1 : Int) (p.2.1 : Int) with
          | error e => rw [h1] at hstep; cases hstep
          | ok rp =>
            rw [h1] at hstep
            simp only [bind, Except.bind] at hstep
            cases h2 : callOp cfg fuel o p.2.2 rp with
            | error e => rw [h2] at hstep; cases hstep
            | ok v =>
              rw [h2] at hstep
              have hrp := ih.getitem _ _ _ hr rp h1
              have hv := ih.callOp o p.2.2 rp (hlw' p hp) hrp.1 (by intro h; omega) v h2
              exact ⟨v, hv.1, hstep⟩)
        [] cc (Disj_nil _) (by intro p hp; cases hp) hcc
      have htl : Tiles lsize ps' := by
        refine tiles_of_disj_cnt hd' ?_
        intro x hx
        rw [hc' x, if_pos ((tiles_exists hlt x).mpr hx)]
      have := ih.simplify { bitslice := opts.bitslice } (Expr.comp lsize sf ps')
        (by simp only [WF]; exact ⟨hlpos, htl, (WFParts_iff _).mpr hw'⟩)
      exact Post_of_eq this (by simp only [size_comp]; omega)
    · exact htail
  · -- cst
    apply Post_bind; intro res hres
    have := ih.callOp o _ _ hl hr (by intro h; exact heq (by omega)) res hres
    exact Post_pure ((WF_setSf _ _).mpr this.1) (by rw [size_setSf, this.2]; exact hs.symm)
  · exact htail

/-- `c = comp(n); c[0:n] = cst(0,n); c[a:b] = piece; c.simplify()` — the mask / shift rules -/
theorem zero_then_piece (n : Nat) (sf : Bool) (a b : Int) (piece c1 c2 y : Expr) (hn : 0 < n) (hp : WF piece)
    (h1 : setitem cfg fuel (Expr.comp n sf []) 0 n (cst 0 n false) = .ok c1)
    (h2 : setitem cfg fuel c1 a b piece = .ok c2)
    (hy : simplify cfg fuel {} c2 = .ok y) : WF y ∧ y.size = n := by
  obtain ⟨ps1, rfl, hd1, hw1, _, _, _, hc1⟩ := ih.setitem n sf [] 0 n (cst 0 n false) c1 (Disj_nil _)
    (by intro p hp; cases hp) (by simp only [WF]; exact ⟨hn, Nat.two_pow_pos _⟩) h1
  obtain ⟨ps2, rfl, hd2, hw2, _, _, _, hc2⟩ := ih.setitem n sf ps1 a b piece c2 hd1 hw1 hp h2
  have htl : Tiles n ps2 := by
    refine tiles_of_disj_cnt hd2 ?_
    intro x hx
    rw [hc2 x, hc1 x]
    have : ((0 : Int) ≤ (x : Int) ∧ (x : Int) < (n : Int)) := by omega
    rw [if_pos this]
    split <;> rfl
  exact ih.simplify {} _ (by simp only [WF]; exact ⟨hn, htl, (WFParts_iff _).mpr hw2⟩) y hy

theorem eqn2cst_step (opts : Opts) (o : Op) (l : Expr) (rv rs : Nat) (rf : Bool) (size : Nat) (sf : Bool) (prop : Nat)
    (hw : WF (.op o l (.cst rv rs rf) size sf prop)) :
    PostO size (eqn2cst cfg (fuel + 1) opts o l rv rs rf size sf) := by
  rw [eqn2cst.eq_def]; dsimp only
  obtain ⟨hpos, hp, hl, hr, hs, heq⟩ := (WF_op_iff _ _ _ _ _ _).mp hw
  have hlpos := WF_size_pos l hl
  have szl : ∀ {o' : Op}, o = o' → o'.type ≠ 4 → o' ≠ Op.mul2 → l.size = size := by
    intro o' h h4 hm; subst h; rw [hs]; simp [resSize, h4, hm]
  have bits1 : ∀ (L : List Int) (bits : List Expr),
      L.mapM (fun i => getitem cfg fuel l i (i + 1)) = .ok bits → (∀ y ∈ bits, WF y ∧ y.size = 1) ∧ bits.length = L.length := by
    intro L bits h
    exact mapM_spec _ (fun _ => True) (fun y => WF y ∧ y.size = 1)
      (by intro i y _ hy; have := ih.getitem l i (i + 1) hl y hy; exact ⟨this.1, by rw [this.2]; omega⟩) L bits (fun _ _ => trivial) h
  have compose : ∀ (bits : List Expr), (∀ y ∈ bits, WF y ∧ y.size = 1) → bits.length = size →
      PostO size (do let c ← composer cfg fuel bits; pure (some (if c.isCmp = true then c.setSf sf else c))) := by
    intro bits hb hlen
    apply PostO_bind; intro c hc
    have := ih.composer bits (fun y hy => (hb y hy).1) c hc
    rw [foldl_size_ones bits (fun y hy => (hb y hy).2), hlen] at this
    exact PostO_some (WF_setSf_if c sf this.1) (by rw [size_setSf_if]; exact this.2)
  split
  · -- value = 0
    split
    · rename_i h
      refine PostO_some hl ?_
      simp only [Bool.or_eq_true, beq_iff_eq] at h
      rcases h with ((((((h | h) | h) | h) | h) | h) | h) | h <;> exact szl h (by simp [Op.type]) (by simp)
    · split
      · exact PostO_some (by simp only [WF]; exact ⟨hpos, Nat.two_pow_pos _⟩) rfl
      · split
        · rename_i h
          simp only [Bool.and_eq_true, beq_iff_eq] at h
          refine PostO_some WF_bit0 ?_
          rw [hs, h.1]; simp [resSize, Op.type]
        · split
          · rename_i h
            simp only [Bool.and_eq_true, beq_iff_eq] at h
            refine PostO_some WF_bit1 ?_
            rw [hs, h.1]; simp [resSize, Op.type]
          · exact PostO_none _
  · split
    · rename_i h
      refine PostO_some hl ?_
      simp only [Bool.and_eq_true, decide_eq_true_eq, Bool.or_eq_true, beq_iff_eq] at h
      rcases h.2 with h' | h' <;> exact szl h' (by simp [Op.type]) (by simp)
    · split
      · rename_i h
        simp only [Bool.and_eq_true, decide_eq_true_eq, beq_iff_eq] at h
        apply PostO_bind; intro y hy
        have := ih.extendExp l.sf l size hl y hy
        refine PostO_some this.1 ?_
        rw [this.2, hs, h.2]; simp [resSize, Op.type]; omega
      · split
        · -- mask to slice
          rename_i i1 i2 hm
          have ho : o = Op.and := by
            by_contra hne
            have : (o == Op.and) = false := by simpa using hne
            simp [this] at hm
          have hsz := szl ho (by simp [Op.type]) (by simp)
          apply PostO_bind; intro c1 h1
          apply PostO_bind; intro piece hpc
          apply PostO_bind; intro c2 h2
          apply PostO_bind; intro y hy
          have hpw := ih.getitem l _ _ hl piece hpc
          have := zero_then_piece ih size sf _ _ piece c1 c2 y hpos hpw.1 h1 h2 hy
          exact PostO_some this.1 this.2
        · split
          · -- bitslice of a logic operator
            rename_i h
            simp only [Bool.and_eq_true, Bool.or_eq_true, beq_iff_eq] at h
            have hsz : l.size = size := by
              rcases h.2 with (h' | h') | h' <;> exact szl h' (by simp [Op.type]) (by simp)
            apply PostO_bind; intro bits hbits
            have hb := mapM_spec (fun (i : Int) => do
                let a ← getitem cfg fuel l i (i + 1)
                let b ← getitem cfg fuel (cst rv rs rf) i (i + 1)
                callOp cfg fuel o a b) (fun _ => True) (fun y => WF y ∧ y.size = 1)
              (by
                intro i y _ hy
                cases ha : getitem cfg fuel l i (i + 1) with
                | error e => rw [ha] at hy; cases hy
                | ok a =>
                  rw [ha] at hy
                  simp only [bind, Except.bind] at hy
                  cases hbb : getitem cfg fuel (cst rv rs rf) i (i + 1) with
                  | error e => rw [hbb] at hy; cases hy
                  | ok b =>
                    rw [hbb] at hy
                    simp only at hy
                    have h1 := ih.getitem l i (i + 1) hl a ha
                    have h2 := ih.getitem _ i (i + 1) hr b hbb
                    have h3 := ih.callOp o a b h1.1 h2.1 (by intro _; rw [h1.2, h2.2]) y hy
                    refine ⟨h3.1, ?_⟩
                    rw [h3.2]
                    have : a.size = 1 := by rw [h1.2]; omega
                    rcases h.2 with (h' | h') | h' <;> subst h' <;> simp [resSize, Op.type, this])
              (pyRange 0 size) bits (fun _ _ => trivial) hbits
            exact compose bits hb.1 (by rw [hb.2, length_pyRange]; omega)
          · split
            · exact PostO_some (by simp only [WF]; exact ⟨hpos, Nat.two_pow_pos _⟩) rfl
            · rename_i hge
              simp only [Bool.and_eq_true, Bool.or_eq_true, beq_iff_eq, decide_eq_true_eq, not_and, not_le] at hge
              split
              · -- bitslice shl
                rename_i h
                simp only [Bool.and_eq_true, beq_iff_eq] at h
                have hsz := szl h.2 (by simp [Op.type]) (by simp)
                have hlt := hge (Or.inl h.2)
                apply PostO_bind; intro bits hbits
                have hb := bits1 _ bits hbits
                refine compose (bit0s rv ++ bits) ?_ ?_
                · intro y hy
                  rcases List.mem_append.mp hy with hy | hy
                  · simp only [bit0s, List.mem_replicate] at hy
                    rw [hy.2]; exact ⟨WF_bit0, rfl⟩
                  · exact hb.1 y hy
                · rw [List.length_append, hb.2, length_pyRange]; simp [bit0s]; omega
              · split
                · rename_i h
                  simp only [Bool.and_eq_true, beq_iff_eq] at h
                  have hsz := szl h.2 (by simp [Op.type]) (by simp)
                  have hlt := hge (Or.inr h.2)
                  apply PostO_bind; intro bits hbits
                  have hb := bits1 _ bits hbits
                  refine compose (bits ++ bit0s rv) ?_ ?_
                  · intro y hy
                    rcases List.mem_append.mp hy with hy | hy
                    · exact hb.1 y hy
                    · simp only [bit0s, List.mem_replicate] at hy
                      rw [hy.2]; exact ⟨WF_bit0, rfl⟩
                  · rw [List.length_append, hb.2, length_pyRange]; simp [bit0s]; omega
                · split
                  · -- shl to comp
                    rename_i h
                    simp only [beq_iff_eq] at h
                    have hsz := szl h (by simp [Op.type]) (by simp)
                    apply PostO_bind; intro c1 h1
                    apply PostO_bind; intro piece hpc
                    apply PostO_bind; intro c2 h2
                    apply PostO_bind; intro y hy
                    have hpw := ih.getitem l _ _ hl piece hpc
                    have := zero_then_piece ih l.size sf _ _ piece c1 c2 y hlpos hpw.1 h1 h2 hy
                    exact PostO_some this.1 (by rw [this.2]; exact hsz)
                  · split
                    · rename_i h
                      simp only [beq_iff_eq] at h
                      have hsz := szl h (by simp [Op.type]) (by simp)
                      apply PostO_bind; intro c1 h1
                      apply PostO_bind; intro piece hpc
                      apply PostO_bind; intro c2 h2
                      apply PostO_bind; intro y hy
                      have hpw := ih.getitem l _ _ hl piece hpc
                      have := zero_then_piece ih l.size sf _ _ piece c1 c2 y hlpos hpw.1 h1 h2 hy
                      exact PostO_some this.1 (by rw [this.2]; exact hsz)
                    · exact PostO_none _

/-- postcondition on `(operator, left, right)` triples -/
def PostT (P : Op × Expr × Expr → Prop) (x : R (Op × Expr × Expr)) : Prop := ∀ t, x = .ok t → P t

theorem normL_step (o : Op) (l r : Expr) (size : Nat) (sf : Bool) (prop : Nat)
    (hw : WF (.op o l r size sf prop)) :
    PostT (fun t => WF (.op t.1 t.2.1 t.2.2 size sf prop)) (normL cfg (fuel + 1) o l r) := by
  rw [normL.eq_def]; dsimp only
  have same : PostT (fun t => WF (.op t.1 t.2.1 t.2.2 size sf prop)) (pure (o, l, r)) := by
    intro t ht; cases ht; exact hw
  obtain ⟨hpos, hp, hl, hr, hs, heq⟩ := (WF_op_iff _ _ _ _ _ _).mp hw
  split
  · split
    · split
      · rename_i lo ll lr ls lf lp _ _ x hx
        obtain ⟨t1, t2, t3, n1, n2, n3⟩ := pm_types hx
        obtain ⟨_, _, hll, hlr, hls, hleq⟩ := (WF_op_iff _ _ _ _ _ _).mp hl
        intro t ht
        cases hc : callOp cfg fuel o ll r with
        | error e => rw [hc] at ht; cases ht
        | ok nl =>
          rw [hc] at ht
          simp only [bind, Except.bind, pure, Except.pure] at ht
          cases ht
          have hn := ih.callOp o ll r hll hr (by intro h; omega) nl hc
          rw [resSize_type1 _ t1 n1] at hn hs
          rw [resSize_type1 _ t2 n2] at hls
          simp only [size_op] at hs
          show WF (.op lo nl lr size sf prop)
          rw [WF_op_iff]
          refine ⟨hpos, by omega, hn.1, hlr, ?_, ?_⟩
          · rw [resSize_type1 _ t2 n2]; omega
          · intro _; rw [hn.2]; exact hleq (by omega)
      · exact same
    · exact same
  · exact same

theorem normR_step (o : Op) (l r : Expr) (size : Nat) (sf : Bool) (prop : Nat)
    (hw : WF (.op o l r size sf prop)) :
    PostT (fun t => WF (.op t.1 t.2.1 t.2.2 size sf prop)) (normR cfg (fuel + 1) o l r) := by
  rw [normR.eq_def]; dsimp only
  have same : PostT (fun t => WF (.op t.1 t.2.1 t.2.2 size sf prop)) (pure (o, l, r)) := by
    intro t ht; cases ht; exact hw
  obtain ⟨hpos, hp, hl, hr, hs, heq⟩ := (WF_op_iff _ _ _ _ _ _).mp hw
  split
  · split
    · split
      · rename_i ro rl rr rs rf rp _ _ x hx
        obtain ⟨t1, t2, t3, n1, n2, n3⟩ := pm_types hx
        obtain ⟨_, _, hrl, hrr, hrs, hreq⟩ := (WF_op_iff _ _ _ _ _ _).mp hr
        intro t ht
        cases hc : callOp cfg fuel o l rl with
        | error e => rw [hc] at ht; cases ht
        | ok nl =>
          rw [hc] at ht
          simp only [bind, Except.bind, pure, Except.pure] at ht
          cases ht
          have hn := ih.callOp o l rl hl hrl (by intro h; omega) nl hc
          rw [resSize_type1 _ t1 n1] at hn hs
          rw [resSize_type1 _ t2 n2] at hrs
          have h1 := heq (by omega)
          have h2 := hreq (by omega)
          simp only [size_op] at h1
          show WF (.op x nl rr size sf prop)
          rw [WF_op_iff]
          refine ⟨hpos, by omega, hn.1, hrr, ?_, ?_⟩
          · rw [resSize_type1 _ t3 n3]; omega
          · intro _; omega
      · exact same
    · exact same
  · split
    · split
      · intro t ht; cases ht
      · exact same
    · exact same
  · exact same

omit ih in
theorem WF_normNeg (o : Op) (l r : Expr) (size : Nat) (sf : Bool) (prop : Nat) (h1 : WF (.op o l r size sf prop)) :
    WF (.op (normNeg o r).1 l (normNeg o r).2 size sf prop) := by
  unfold normNeg
  split
  · rename_i ro rr rs rf rp
    split
    · rename_i hc
      simp only [Bool.and_eq_true, beq_iff_eq] at hc
      obtain ⟨rfl, rfl⟩ := hc
      obtain ⟨hpos, hp, hl, hr, hs, heq⟩ := (WF_op_iff _ _ _ _ _ _).mp h1
      simp only [WF] at hr
      have h2 := heq (by simp [Op.type])
      simp only [size_uop] at h2
      show WF (.op Op.sub l rr size sf prop)
      rw [WF_op_iff]
      refine ⟨hpos, by simpa [Op.type] using hp, hl, hr.2.1, by simpa [resSize, Op.type] using hs, ?_⟩
      intro _; omega
    · exact h1
  · exact h1

theorem eqn2norm_step (o : Op) (l r : Expr) (size : Nat) (sf : Bool) (prop : Nat)
    (hw : WF (.op o l r size sf prop)) (o' : Op) (l' r' : Expr)
    (h : eqn2norm cfg (fuel + 1) o l r = .ok (o', l', r')) : WF (.op o' l' r' size sf prop) := by
  rw [eqn2norm.eq_def] at h; dsimp only at h
  cases h1 : normL cfg fuel o l r with
  | error e => rw [h1] at h; cases h
  | ok t =>
    rw [h1] at h
    simp only [bind, Except.bind] at h
    have w1 := ih.normL o l r size sf prop hw t h1
    have w2 := WF_normNeg t.1 t.2.1 t.2.2 size sf prop w1
    exact ih.normR _ _ _ size sf prop w2 (o', l', r') h

omit ih in
theorem WF_cplx_top (c : Bool) (e : Expr) (h : WF e) :
    WF (if c = true then mkTop e.size else e) ∧ (if c = true then mkTop e.size else e).size = e.size := by
  split
  · exact ⟨WF_mkTop (WF_size_pos e h), rfl⟩
  · exact ⟨h, rfl⟩

theorem eqn2_step (opts : Opts) (o : Op) (l r : Expr) (size : Nat) (sf : Bool) (prop : Nat)
    (hw : WF (.op o l r size sf prop)) : Post size (eqn2 cfg (fuel + 1) opts o l r size sf prop) := by
  rw [eqn2.eq_def]; dsimp only
  obtain ⟨hpos, hp, hl, hr, hs, heq⟩ := (WF_op_iff _ _ _ _ _ _).mp hw
  obtain ⟨hl1, hl2⟩ := WF_cplx_top (cfg.cplx l) l hl
  obtain ⟨hr1, hr2⟩ := WF_cplx_top (cfg.cplx r) r hr
  have hw' : WF (.op o (if cfg.cplx l = true then mkTop l.size else l) (if cfg.cplx r = true then mkTop r.size else r) size sf prop) := by
    rw [WF_op_iff]
    exact ⟨hpos, hp, hl1, hr1, by rw [resSize_congr o hl2]; exact hs, by intro h; rw [hl2, hr2]; exact heq h⟩
  generalize (if cfg.cplx r = true then mkTop r.size else r) = r' at *
  generalize (if cfg.cplx l = true then mkTop l.size else l) = l' at *
  split
  · exact Post_pure (WF_mkTop hpos) rfl
  · apply Post_bind; intro t ht
    obtain ⟨o1, l1, r1⟩ := t
    have hw1 := ih.eqn2norm _ _ _ size sf prop hw' o1 l1 r1 ht
    dsimp only
    split
    · rename_i rv rs rf
      apply Post_bind; intro res hres
      split
      · rename_i y
        have := ih.eqn2cst opts o1 l1 rv rs rf size sf prop hw1 y hres
        exact Post_pure this.1 this.2
      · exact ih.eqn2snd opts o1 l1 rv rs rf size sf prop hw1
    · exact ih.eqn2tail opts o1 l1 r1 size sf prop hw1

theorem simplify_step (o : Opts) (e : Expr) (he : WF e) : Post e.size (simplify cfg (fuel + 1) o e) := by
  rw [simplify.eq_def]; dsimp only
  split
  · exact Post_ok he rfl
  · exact Post_ok he rfl
  · exact Post_ok he rfl
  · exact Post_ok he rfl
  · exact Post_ok he rfl
  · intro r hr
    exact memSimplify_spec _ r he hr
  · exact Post_error _ _
  · -- slc
    rename_i x pos size sf ref ety
    simp only [WF] at he
    obtain ⟨hx, hsz, hps⟩ := he
    simp only [size_slc]
    apply Post_bind; intro x' hx'
    obtain ⟨hxw, hxs⟩ := ih.simplify o x hx x' hx'
    have hself : Post size (pure (Expr.slc x' pos size sf ref ety)) :=
      Post_pure (by simp only [WF]; exact ⟨hxw, hsz, by omega⟩) rfl
    have hgi : ∀ y, WF y → Post size (getitem cfg fuel y (pos : Int) ((pos + size : Nat) : Int)) := by
      intro y hy
      exact Post_of_eq (ih.getitem y _ _ hy) (by omega)
    split
    · exact Post_pure (WF_mkTop hsz) rfl
    · split
      · apply Post_bind; intro res hres
        have := hgi x' hxw res (by simpa using hres)
        exact Post_pure ((WF_setSf _ _).mpr this.1) (by rw [size_setSf]; exact this.2)
      · split
        · intro res hres
          exact slcMem_spec x' pos size sf ref ety res hxw hsz (by omega) hres
        · cases x' with
          | op xo xl xr xs xf xp =>
            dsimp only
            obtain ⟨_, _, hxl, hxr, hxs', hxeq⟩ := (WF_op_iff _ _ _ _ _ _).mp hxw
            split
            · rename_i hc
              apply Post_bind; intro r hr
              apply Post_bind; intro l hl
              have h1 := hgi xr hxr r (by simpa using hr)
              have h2 := hgi xl hxl l (by simpa using hl)
              have := ih.callOp xo l r h2.1 h1.1 (by intro _; rw [h1.2, h2.2])
              refine Post_of_eq this ?_
              simp only [Bool.or_eq_true, beq_iff_eq, Bool.and_eq_true, decide_eq_true_eq] at hc
              rcases hc with hc | hc
              · have hne : xo ≠ Op.mul2 := by intro h; subst h; simp [Op.type] at hc
                simp [resSize, hc, hne, h2.2]
              · rcases hc.1 with rfl | rfl <;> simp [resSize, Op.type, h2.2]
            · exact hself
          | uop xo xr xs xf xp =>
            dsimp only
            simp only [WF] at hxw
            split
            · apply Post_bind; intro r hr
              have h1 := hgi xr hxw.2.1 r (by simpa using hr)
              exact Post_of_eq (ih.callUop xo r h1.1) h1.2
            · exact hself
          | vec l s f =>
            dsimp only
            simp only [WF] at hxw
            apply Post_bind; intro l' hl'
            have := mapM_spec (fun y => getitem cfg fuel y (pos : Int) ((pos + size : Nat) : Int)) (fun y => WF y) (fun y => WF y ∧ y.size = size)
              (by intro y r hy h; exact hgi y hy r h) l l' (fun y hy => ((WFList_iff l s).mp hxw.2.2 y hy).1) (by simpa using hl')
            intro v hv
            exact mkVec_spec l' size v hsz (by intro h; have h2 := this.2; rw [h] at h2; exact hxw.2.1 (List.length_eq_zero_iff.mp h2.symm)) this.1 hv
          | _ => exact hself
  · -- comp
    rename_i size sf parts
    simp only [WF] at he
    obtain ⟨hpos, ht, hwp⟩ := he
    simp only [size_comp]
    apply Post_bind; intro parts' hp'
    obtain ⟨h1, h2, h3⟩ := mapM_parts_spec (simplify cfg fuel o)
      (fun e r he h => ih.simplify o e he r h) parts parts' ((WFParts_iff _).mp hwp) hp'
    have hd' : Disj size parts' := by
      refine ⟨h2 size ht.1, fun b => ?_⟩
      show cnt b parts' ≤ 1
      rw [h3 b]; exact ht.disj.cnt_le b
    obtain ⟨r1, r2, r3⟩ := restruct_spec size parts' hd' h1
    have htr : Tiles size (restruct parts') :=
      tiles_of_disj_cnt r1 (fun x hx => by rw [r3 x, h3 x]; exact ht.2 x hx)
    split
    · rename_i v s f hf
      have hw := r2 _ (findKey_some_mem hf)
      have hs := htr.whole_key hf
      exact Post_pure (by simp only [WF] at hw ⊢; exact hw) hs
    · rename_i p _ hf
      exact Post_pure (r2 _ (findKey_some_mem hf)) (htr.whole_key hf)
    · exact Post_pure (by simp only [WF]; exact ⟨hpos, htr, (WFParts_iff _).mpr r2⟩) rfl
  · -- tst
    rename_i t l r size sf
    simp only [WF] at he
    obtain ⟨hpos, ht, hl, hr, ht1, hls, hrs⟩ := he
    simp only [size_tst]
    apply Post_bind; intro t' ht'
    obtain ⟨htw, hts⟩ := ih.simplify o t ht t' ht'
    split
    · apply Post_bind; intro v hv
      have hvs := mkVec_spec [l, r] size v hpos (by simp) (by
        intro y hy; simp at hy; rcases hy with rfl | rfl
        · exact ⟨hl, hls⟩
        · exact ⟨hr, hrs⟩) hv
      exact Post_of_eq (ih.simplify {} v hvs.1) hvs.2
    · apply Post_bind; intro l' hl'
      obtain ⟨hlw, hls'⟩ := ih.simplify o l hl l' hl'
      apply Post_bind; intro c1 _
      split
      · exact Post_pure hlw (by omega)
      · apply Post_bind; intro r' hr'
        obtain ⟨hrw, hrs'⟩ := ih.simplify o r hr r' hr'
        apply Post_bind; intro c0 _
        split
        · exact Post_pure hrw (by omega)
        · apply Post_bind; intro c _
          split
          · exact Post_pure hlw (by omega)
          · exact Post_pure (by simp only [WF]; exact ⟨hpos, htw, hlw, hrw, by omega, by omega, by omega⟩) rfl
  · -- op
    rename_i oo l r size sf prop
    obtain ⟨hpos, hp, hl, hr, hs, heq⟩ := (WF_op_iff _ _ _ _ _ _).mp he
    simp only [size_op]
    apply Post_bind; intro l' hl'
    obtain ⟨hlw, hls⟩ := ih.simplify o l hl l' hl'
    apply Post_bind; intro r' hr'
    obtain ⟨hrw, hrs⟩ := ih.simplify o r hr r' hr'
    have hw' : WF (.op oo l' r' size sf prop) := by
      rw [WF_op_iff]
      exact ⟨hpos, hp, hlw, hrw, by rw [resSize_congr oo hls]; exact hs, by intro h; rw [hls, hrs]; exact heq h⟩
    split
    · rename_i hc
      simp only [Bool.and_eq_true, decide_eq_true_eq, bne_iff_ne, ne_eq] at hc
      have ht : oo.type < 4 := by omega
      have hne8 : oo.type ≠ 8 := by omega
      have hlr : l'.size = r'.size := by rw [hls, hrs]; exact heq hne8
      -- the swapped node is still well-formed
      have hswap : WF (.op oo r' l' size sf prop) := by
        rw [WF_op_iff]
        exact ⟨hpos, hp, hrw, hlw, by rw [resSize_congr oo hlr.symm, resSize_congr oo hls]; exact hs, fun _ => hlr.symm⟩
      have hsub : oo = Op.sub → ∀ nr, WF nr → nr.size = r'.size → WF (.op Op.add nr l' size sf prop) := by
        intro h nr hn hns
        subst h
        rw [WF_op_iff]
        refine ⟨hpos, by simpa [Op.type] using hp, hn, hlw, ?_, fun _ => by omega⟩
        rw [hs]; simp [resSize, Op.type]; omega
      split
      · apply Post_pure
        · split
          · exact hlw
          · exact WF_mkTop hpos
        · split
          · rename_i h; simpa using h
          · rfl
      · split
        · apply Post_pure
          · split
            · exact hrw
            · exact WF_mkTop hpos
          · split
            · rename_i h; simpa using h
            · rfl
        · split
          · split
            · apply Post_bind; intro res hres
              have := ih.callOp oo l' r' hlw hrw (by intro h; omega) res hres
              exact Post_pure ((WF_setSf _ _).mpr this.1) (by rw [size_setSf, this.2, resSize_congr oo hls]; exact hs.symm)
            · split
              · rename_i hm
                simp only [beq_iff_eq] at hm
                apply Post_bind; intro nr hnr
                have := ih.apiNeg r' hrw nr hnr
                exact ih.eqn2 o Op.add nr l' size sf prop (hsub hm nr this.1 this.2)
              · exact ih.eqn2 o oo r' l' size sf prop hswap
          · split
            · split
              · rename_i hm
                simp only [beq_iff_eq] at hm
                apply Post_bind; intro nr hnr
                have := ih.apiNeg r' hrw nr hnr
                exact ih.eqn2 o Op.add nr l' size sf prop (hsub hm nr this.1 this.2)
              · exact ih.eqn2 o oo r' l' size sf prop hswap
            · exact ih.eqn2 o oo l' r' size sf prop hw'
    · exact ih.eqn2 o oo l' r' size sf prop hw'
  · -- uop
    rename_i oo r size sf prop
    simp only [WF] at he
    simp only [size_uop]
    apply Post_bind; intro r' hr'
    obtain ⟨hrw, hrs⟩ := ih.simplify o r he.2.1 r' hr'
    split
    · exact Post_pure hrw (by omega)
    · exact ih.eqn1 oo r' size sf prop hrw (by omega)
  · -- vec
    rename_i l size sf
    simp only [WF] at he
    obtain ⟨hpos, hne, hwl⟩ := he
    simp only [size_vec]
    apply Post_bind; intro t ht
    obtain ⟨early, l1⟩ := t
    obtain ⟨f1, f2⟩ := vecFlat_spec (simplify cfg fuel {}) size (fun e r he h => ih.simplify {} e he r h)
      l [] early l1 ((WFList_iff l size).mp hwl) (by intro x hx; cases hx) ht
    dsimp only
    split
    · rename_i ee
      have := f1 ee rfl
      exact Post_pure this.1 this.2
    · obtain ⟨g1, g2⟩ := f2 rfl
      apply Post_bind; intro l2 hl2
      obtain ⟨d1, d2⟩ := vecDedup_spec (api cfg fuel Op.eq) (fun x => WF x ∧ x.size = size) l1 [] l2 g1
        (by intro x hx; cases hx) hl2
      have hl2ne : l2 ≠ [] := d2 (Or.inr (g2 (Or.inr hne)))
      split
      · rename_i x
        have := d1 x List.mem_cons_self
        exact Post_pure this.1 this.2
      · split
        · exact Post_pure (by simp only [WF]; exact ⟨hpos, hl2ne, (WFList_iff _ _).mpr d1⟩) rfl
        · split
          · exact Post_pure (WF_mkTop hpos) rfl
          · exact Post_pure (by simp only [WF]; exact ⟨hpos, hl2ne, (WFList_iff _ _).mpr d1⟩) rfl

end steps

/-- every function of the mutual block, at every fuel, returns well-formed results of the dictated width -/
theorem widthIH_all (fuel : Nat) : WidthIH cfg fuel := by
  induction fuel with
  | zero => exact widthIH_zero cfg
  | succ n ih =>
    exact {
      simplify := simplify_step ih
      eqn1 := eqn1_step ih
      eqn2 := eqn2_step ih
      eqn2norm := eqn2norm_step ih
      normL := fun o l r size sf prop hw => normL_step ih o l r size sf prop hw
      normR := fun o l r size sf prop hw => normR_step ih o l r size sf prop hw
      eqn2cst := fun opts o l rv rs rf size sf prop hw => eqn2cst_step ih opts o l rv rs rf size sf prop hw
      eqn2snd := eqn2snd_step ih
      eqn2tail := eqn2tail_step ih
      oper := oper_step ih
      operU := operU_step ih
      apiNeg := apiNeg_step ih
      apiNot := apiNot_step ih
      api := api_step ih
      apiExp := apiExp_step ih
      callOp := callOp_step ih
      callUop := callUop_step ih
      helperCmp := helperCmp_step ih
      helperRot := helperRot_step ih
      getitem := getitem_step ih
      slicer := slicer_step ih
      mkSlc := mkSlc_step ih
      setitem := fun n sf ps a b v r hd hw hv h => setitem_step ih n sf ps a b v r hd hw hv h
      composer := composer_step ih
      extendExp := extendExp_step ih }

end Amoco
