/-
  Helper lemmas for C18: the support zone of runs of one stream — `locate` and non-overlapping
  `addtomap` on represented zones.
-/
import Amoco.Model.Cfg
import Amoco.Proofs.CfgStream
import Amoco.Proofs.CfgAbs

namespace Amoco.Cfg

open Amoco.Blocks

/-! ## lists of offsets -/

theorem takeWhile_lt_split (a : Nat) : ∀ (l1 l2 : List Nat), (∀ x ∈ l1, x < a) → (∀ x ∈ l2, a ≤ x) →
    (l1 ++ l2).takeWhile (fun x => decide (x < a)) = l1
  | [], [], _, _ => rfl
  | [], y :: l2, _, h2 => by
    have := h2 y (by simp)
    simp [List.takeWhile_cons]; omega
  | x :: l1, l2, h1, h2 => by
    have hx := h1 x (by simp)
    simp only [List.cons_append, List.takeWhile_cons, hx, decide_true, if_true]
    rw [takeWhile_lt_split a l1 l2 (fun y hy => h1 y (List.mem_cons_of_mem _ hy)) h2]

theorem idxOf_split (a : Nat) : ∀ (l1 l2 : List Nat), (∀ x ∈ l1, x ≠ a) → (l1 ++ a :: l2).idxOf a = l1.length
  | [], l2, _ => by simp [List.idxOf_cons]
  | x :: l1, l2, h1 => by
    have hx := h1 x (by simp)
    simp only [List.cons_append, List.idxOf_cons, List.length_cons]
    have : (x == a) = false := by simpa using hx
    rw [this]
    simp only [cond_false]
    rw [idxOf_split a l1 l2 (fun y hy => h1 y (List.mem_cons_of_mem _ hy))]

theorem take_succ_append_cons {α} (l : List α) (x : α) (r : List α) :
    (l ++ x :: r).take (l.length + 1) = l ++ [x] := by
  rw [List.take_append, List.take_of_length_le (by omega)]; simp

theorem drop_succ_append_cons {α} (l : List α) (x : α) (r : List α) :
    (l ++ x :: r).drop (l.length + 1) = r := by
  simp

/-! ## represented zones -/

def repMo (S : List Instr) (iv : Iv) : Mo := ⟨addrOf S iv.1, run S iv.1 iv.2⟩
def rep (S : List Instr) (ivs : List Iv) : Zone := ivs.map (repMo S)

variable {S : List Instr}

@[simp] theorem rep_nil : rep S [] = [] := rfl
@[simp] theorem rep_cons (iv : Iv) (ivs : List Iv) : rep S (iv :: ivs) = repMo S iv :: rep S ivs := rfl
@[simp] theorem rep_append (a b : List Iv) : rep S (a ++ b) = rep S a ++ rep S b := by simp [rep]
theorem rep_length (a : List Iv) : (rep S a).length = a.length := by simp [rep]

theorem repMo_end (iv : Iv) (h1 : iv.1 ≤ iv.2) (h2 : iv.2 ≤ S.length) : (repMo S iv).end = addrOf S iv.2 := by
  simp [Mo.end, repMo, addrOf_add iv.1 iv.2 h1 h2]

theorem repMo_contains (hS : StreamOK S) (iv : Iv) (p : Nat) (h1 : iv.1 ≤ iv.2) (h2 : iv.2 ≤ S.length)
    (hp : p ≤ S.length) : (repMo S iv).contains (addrOf S p) = (decide (iv.1 ≤ p) && decide (p < iv.2)) := by
  unfold Mo.contains
  rw [repMo_end iv h1 h2]
  simp only [repMo]
  have e1 : (addrOf S iv.1 ≤ addrOf S p) ↔ iv.1 ≤ p := addrOf_le_iff hS _ _ (by omega) hp
  have e2 : (addrOf S p < addrOf S iv.2) ↔ p < iv.2 := addrOf_lt_iff hS _ _ hp h2
  simp [e1, e2]

theorem locate_rep_none (hS : StreamOK S) (ivs : List Iv) (p : Nat) (hok : IvsOK S.length ivs) (hp : p ≤ S.length)
    (h : ∀ x ∈ ivs, p < x.1) : locate (rep S ivs) (addrOf S p) = none := by
  unfold locate
  simp only
  have hall : ∀ x ∈ (rep S ivs).map (·.vaddr), addrOf S p < x := by
    intro x hx
    simp [rep, repMo] at hx
    obtain ⟨a, ⟨b, hab⟩, rfl⟩ := hx
    have := h (a, b) hab
    have := hok.mem hab
    exact addrOf_lt hS p a (by simpa using h (a, b) hab) (by simp at this; omega)
  have hnm : ¬ addrOf S p ∈ (rep S ivs).map (·.vaddr) := by
    intro hm; have := hall _ hm; omega
  rw [if_neg hnm]
  have : bisectLeft ((rep S ivs).map (·.vaddr)) (addrOf S p) = 0 := by
    unfold bisectLeft
    have := takeWhile_lt_split (addrOf S p) [] ((rep S ivs).map (·.vaddr)) (by simp) (fun x hx => Nat.le_of_lt (hall x hx))
    simp at this
    simp [this]
  simp [this]

theorem locate_rep_some (hS : StreamOK S) (pre post : List Iv) (iv : Iv) (p : Nat)
    (hok : IvsOK S.length (pre ++ iv :: post)) (hp : p ≤ S.length)
    (h1 : iv.1 ≤ p) (h2 : ∀ x ∈ post, p < x.1) :
    locate (rep S (pre ++ iv :: post)) (addrOf S p) = some pre.length := by
  have hpw := hok.2
  rw [List.pairwise_append] at hpw
  obtain ⟨_, _, hpw3⟩ := hpw
  have hm := hok.mem (show iv ∈ pre ++ iv :: post by simp)
  have hprelt : ∀ x ∈ (rep S pre).map (·.vaddr), x < addrOf S iv.1 := by
    intro x hx
    simp [rep, repMo] at hx
    obtain ⟨a, ⟨b, hab⟩, rfl⟩ := hx
    have h3 := hpw3 (a, b) hab iv (by simp)
    have h4 := hok.mem (show (a, b) ∈ pre ++ iv :: post from List.mem_append_left _ hab)
    simp at h3 h4
    exact addrOf_lt hS a iv.1 (by omega) (by omega)
  have hpostgt : ∀ x ∈ (rep S post).map (·.vaddr), addrOf S p < x := by
    intro x hx
    simp [rep, repMo] at hx
    obtain ⟨a, ⟨b, hab⟩, rfl⟩ := hx
    have h3 := h2 (a, b) hab
    have h4 := hok.mem (show (a, b) ∈ pre ++ iv :: post from List.mem_append_right _ (List.mem_cons_of_mem _ hab))
    simp at h3 h4
    exact addrOf_lt hS p a h3 (by omega)
  have hle : addrOf S iv.1 ≤ addrOf S p := addrOf_le _ _ h1 hp
  have hvad : (rep S (pre ++ iv :: post)).map (·.vaddr) =
      (rep S pre).map (·.vaddr) ++ addrOf S iv.1 :: (rep S post).map (·.vaddr) := by
    simp [repMo]
  unfold locate
  simp only
  rw [hvad]
  by_cases heq : iv.1 = p
  · have hmem : addrOf S p ∈ (rep S pre).map (·.vaddr) ++ addrOf S iv.1 :: (rep S post).map (·.vaddr) := by
      rw [heq]; simp
    rw [if_pos hmem, heq]
    rw [idxOf_split]
    · simp [rep_length]
    · intro x hx; have := hprelt x hx; rw [heq] at this; omega
  · have hlt : addrOf S iv.1 < addrOf S p := addrOf_lt hS _ _ (by omega) hp
    have hnm : ¬ addrOf S p ∈ (rep S pre).map (·.vaddr) ++ addrOf S iv.1 :: (rep S post).map (·.vaddr) := by
      intro hm
      rcases List.mem_append.mp hm with hx | hx
      · have := hprelt _ hx; omega
      · rcases List.mem_cons.mp hx with hx | hx
        · omega
        · have := hpostgt _ hx; omega
    rw [if_neg hnm]
    have hb : bisectLeft ((rep S pre).map (·.vaddr) ++ addrOf S iv.1 :: (rep S post).map (·.vaddr)) (addrOf S p) = pre.length + 1 := by
      unfold bisectLeft
      have := takeWhile_lt_split (addrOf S p) ((rep S pre).map (·.vaddr) ++ [addrOf S iv.1]) ((rep S post).map (·.vaddr))
        (by
          intro x hx
          rcases List.mem_append.mp hx with hx | hx
          · have := hprelt _ hx; omega
          · simp at hx; omega)
        (fun x hx => Nat.le_of_lt (hpostgt x hx))
      simp only [List.append_assoc, List.singleton_append] at this
      rw [this]
      simp [rep_length]
    rw [hb]
    simp


/-! ## writing a run next to / after a stored run -/

theorem moWrite_after (hS : StreamOK S) (q : Iv) (s e : Nat) (hq : q.1 < q.2) (hqs : q.2 ≤ s) (hse : s ≤ e)
    (he : e ≤ S.length) :
    moWrite (repMo S q) (addrOf S s) (run S s e) = some (repMo S q, [⟨addrOf S s, run S s e⟩]) := by
  have hend := repMo_end (S := S) q (by omega) (by omega)
  have hcont : (repMo S q).contains (addrOf S s) = false := by
    rw [repMo_contains hS q s (by omega) (by omega) (by omega)]
    simp; omega
  unfold moWrite
  by_cases heq : q.2 = s
  · have hae : (addrOf S s == (repMo S q).end) = true := by rw [hend, heq]; simp
    simp only [hcont, hae, Bool.false_or, if_true]
    have ho : addrOf S s - (repMo S q).vaddr = blen (repMo S q).blk := by
      have := addrOf_add (S := S) q.1 q.2 (by omega) (by omega)
      simp only [repMo]
      rw [← heq]; omega
    rw [ho]
    have hpos : 0 < blen (repMo S q).blk := blen_pos hS q.1 q.2 hq (by omega)
    have h1 : ¬ (blen (repMo S q).blk > blen (repMo S q).blk + blen (run S s e)) := by omega
    simp only [h1, if_false, hpos, if_true]
    have hg : getpart (repMo S q).blk 0 (blen (repMo S q).blk) = some (repMo S q).blk := by
      unfold getpart; simp
    rw [hg]
    simp only [Option.map_some, List.append_nil, List.singleton_append, List.cons_append, List.nil_append]
    simp only [placeParts, hend, heq]
  · have hae : (addrOf S s == (repMo S q).end) = false := by
      rw [hend]
      simp
      intro h
      exact heq (addrOf_inj hS s q.2 (by omega) (by omega) h).symm
    simp only [hcont, hae, Bool.or_self, Bool.false_eq_true, if_false]

theorem moTrim_start (hS : StreamOK S) (iv : Iv) (h : iv.1 < iv.2) (h2 : iv.2 ≤ S.length) :
    moTrim (repMo S iv) (addrOf S iv.1) = some (repMo S iv) := by
  unfold moTrim
  rw [repMo_contains hS iv iv.1 (by omega) h2 (by omega)]
  simp [h, repMo]

theorem repMo_contains_start (hS : StreamOK S) (iv : Iv) (h : iv.1 < iv.2) (h2 : iv.2 ≤ S.length) :
    (repMo S iv).contains (addrOf S iv.1) = true := by
  rw [repMo_contains hS iv iv.1 (by omega) h2 (by omega)]
  simp [h]

/-- `MemoryZone.write` of a run into a gap of the zone is the sorted insertion -/
theorem addtomap_gap (hS : StreamOK S) (pre post : List Iv) (s e : Nat)
    (hok : IvsOK S.length (pre ++ post)) (hse : s < e) (he : e ≤ S.length)
    (hpre : ∀ iv ∈ pre, iv.2 ≤ s) (hpost : ∀ iv ∈ post, e ≤ iv.1) :
    addtomap (rep S (pre ++ post)) ⟨addrOf S s, run S s e⟩ = some (rep S (pre ++ (s, e) :: post)) := by
  have hnend : (⟨addrOf S s, run S s e⟩ : Mo).end = addrOf S e := by
    simp [Mo.end, addrOf_add s e (by omega) he]
  have hposts : ∀ x ∈ post, s < x.1 := fun x hx => by have := hpost x hx; omega
  unfold addtomap
  simp only [hnend]
  -- locate of the start
  rcases List.eq_nil_or_concat pre with hpre0 | ⟨pre0, q, hpreq⟩
  · -- nothing before
    subst hpre0
    simp only [List.nil_append] at hok ⊢
    have hi : locate (rep S post) (addrOf S s) = none := locate_rep_none hS post s hok (by omega) hposts
    rw [hi]
    cases post with
    | nil => simp [locate, bisectLeft, repMo]
    | cons hd post' =>
      by_cases htouch : hd.1 = e
      · have hj : locate (rep S (hd :: post')) (addrOf S e) = some 0 := by
          have := locate_rep_some hS [] post' hd e (by simpa using hok) he (by omega) ?_
          · simpa using this
          · intro x hx
            have h1 := hok.2
            rw [List.pairwise_cons] at h1
            have := h1.1 x hx
            have := (hok.mem (show hd ∈ hd :: post' by simp)).1
            omega
        rw [hj]
        have hm := hok.mem (show hd ∈ hd :: post' by simp)
        simp only [reduceCtorEq, if_false, rep_cons, List.getElem?_cons_zero]
        rw [← htouch, repMo_contains_start hS hd hm.1 hm.2]
        simp only [if_true, moTrim_start hS hd hm.1 hm.2, Option.map_some, List.set_cons_zero]
        simp [repMo]
      · have hj : locate (rep S (hd :: post')) (addrOf S e) = none := by
          apply locate_rep_none hS _ e hok he
          intro x hx
          rcases List.mem_cons.mp hx with rfl | hx
          · have := hpost x (by simp); omega
          · have h1 := hok.2
            rw [List.pairwise_cons] at h1
            have := h1.1 x hx
            have := (hok.mem (show hd ∈ hd :: post' by simp)).1
            have := hpost hd (by simp)
            omega
        rw [hj]
        simp [repMo]
  · -- a run `q` before
    rw [List.concat_eq_append] at hpreq
    subst hpreq
    have hokq : IvsOK S.length (pre0 ++ q :: post) := by simpa using hok
    have hqm := hokq.mem (show q ∈ pre0 ++ q :: post by simp)
    have hqs : q.2 ≤ s := hpre q (by simp)
    have hi : locate (rep S (pre0 ++ [q] ++ post)) (addrOf S s) = some pre0.length := by
      have := locate_rep_some hS pre0 post q s hokq (by omega) (by omega) hposts
      simpa using this
    rw [hi]
    have hzq : rep S (pre0 ++ [q] ++ post) = rep S pre0 ++ repMo S q :: rep S post := by simp
    have hlen : (rep S pre0).length = pre0.length := rep_length _
    have hw := moWrite_after hS q s e hqm.1 hqs (by omega) he
    have hresult : rep S (pre0 ++ [q] ++ (s, e) :: post) =
        rep S pre0 ++ repMo S q :: (⟨addrOf S s, run S s e⟩ : Mo) :: rep S post := by
      simp [repMo]
    cases post with
    | nil =>
      have hj : locate (rep S (pre0 ++ [q] ++ [])) (addrOf S e) = some pre0.length := by
        have := locate_rep_some hS pre0 [] q e (by simpa using hok) he (by omega) (by simp)
        simpa using this
      rw [hj]
      simp only [if_true]
      rw [hzq, hresult]
      have hget : (rep S pre0 ++ repMo S q :: rep S [])[pre0.length]? = some (repMo S q) := by
        rw [← hlen]; simp
      rw [hget]
      simp only [hw]
      rw [← hlen, drop_succ_append_cons]
      simp
    | cons hd post' =>
      have hm := hokq.mem (show hd ∈ pre0 ++ q :: hd :: post' by simp)
      have hafter : ∀ x ∈ post', hd.2 ≤ x.1 := by
        intro x hx
        have h1 := hokq.2
        rw [List.pairwise_append] at h1
        have h2 := h1.2.1
        rw [List.pairwise_cons] at h2
        have h3 := h2.2
        rw [List.pairwise_cons] at h3
        exact h3.1 x hx
      by_cases htouch : hd.1 = e
      · subst htouch
        have hj : locate (rep S (pre0 ++ [q] ++ hd :: post')) (addrOf S hd.1) = some (pre0.length + 1) := by
          have := locate_rep_some hS (pre0 ++ [q]) post' hd hd.1 (by simpa using hok) he (by omega) ?_
          · simpa using this
          · intro x hx; have := hafter x hx; omega
        rw [hj]
        have hne : ¬ (some pre0.length = some (pre0.length + 1)) := by simp
        simp only [hne, if_false]
        rw [hzq, hresult]
        have hget1 : (rep S pre0 ++ repMo S q :: rep S (hd :: post'))[pre0.length + 1]? = some (repMo S hd) := by
          rw [← hlen]; simp
        rw [hget1]
        simp only
        rw [repMo_contains_start hS hd hm.1 hm.2]
        simp only [if_true, moTrim_start hS hd hm.1 hm.2, Option.map_some]
        have hset : (rep S pre0 ++ repMo S q :: rep S (hd :: post')).set (pre0.length + 1) (repMo S hd) =
            rep S pre0 ++ repMo S q :: rep S (hd :: post') := by
          rw [← hlen]; simp
        rw [hset]
        have hget0 : (rep S pre0 ++ repMo S q :: rep S (hd :: post'))[pre0.length]? = some (repMo S q) := by
          rw [← hlen]; simp
        rw [hget0]
        simp only
        have hqend := repMo_end (S := S) q (by omega) (by omega)
        have htk : (rep S pre0 ++ repMo S q :: rep S (hd :: post')).take (pre0.length + 1) = rep S pre0 ++ [repMo S q] := by
          rw [← hlen]; exact take_succ_append_cons _ _ _
        have hdr : (rep S pre0 ++ repMo S q :: rep S (hd :: post')).drop (pre0.length + 1) = rep S (hd :: post') := by
          rw [← hlen]; exact drop_succ_append_cons _ _ _
        by_cases hadj : q.2 = s
        · have hle : addrOf S s ≤ (repMo S q).end := by rw [hqend, hadj]; omega
          simp only [hle, if_true, hw, Option.map_some]
          have hset0 : (rep S pre0 ++ repMo S q :: rep S (hd :: post')).set pre0.length (repMo S q) =
              rep S pre0 ++ repMo S q :: rep S (hd :: post') := by
            rw [← hlen]; simp
          rw [hset0]
          simp only [Nat.max_self, htk, hdr]
          simp
        · have hnle : ¬ addrOf S s ≤ (repMo S q).end := by
            rw [hqend]
            intro h
            have := (addrOf_le_iff hS s q.2 (by omega) (by omega)).mp h
            omega
          simp only [hnle, if_false, Nat.max_self, htk, hdr]
          simp
      · have hj : locate (rep S (pre0 ++ [q] ++ hd :: post')) (addrOf S e) = some pre0.length := by
          have := locate_rep_some hS pre0 (hd :: post') q e hokq he (by omega) ?_
          · simpa using this
          · intro x hx
            rcases List.mem_cons.mp hx with rfl | hx
            · have := hpost x (by simp); omega
            · have := hafter x hx; have := hpost hd (by simp); omega
        rw [hj]
        simp only [if_true]
        rw [hzq, hresult]
        have hget : (rep S pre0 ++ repMo S q :: rep S (hd :: post'))[pre0.length]? = some (repMo S q) := by
          rw [← hlen]; simp
        rw [hget]
        simp only [hw]
        rw [← hlen, drop_succ_append_cons]
        simp

end Amoco.Cfg
