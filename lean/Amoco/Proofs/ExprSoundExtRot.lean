/-
  Amoco.Proofs.ExprSoundExtRot — stand-alone all-width facts about the rotations `>>>` / `<<<` (bit characterisation,
  composition, `rol` as `ror`, slices of rotations), and the inclusion of the C01 fragment `Plain` in the fragment
  with rotations (`Amoco.Rot.Plain`).
-/
import Amoco.Proofs.ExprSoundExtBase

namespace Amoco.Rot

open Expr Bits

mutual
/-- the fragment of C01 is contained in the fragment with rotations -/
theorem plain_of_plain : ∀ e : Expr, Amoco.Expr.Plain e → Plain e
  | .cst .., _ => by simp only [Plain]
  | .reg .., _ => by simp only [Plain]
  | .ext .., h => by simp only [Amoco.Expr.Plain] at h
  | .slc x _ _ _ _ k, h => by
      simp only [Amoco.Expr.Plain] at h
      simp only [Plain]; exact ⟨h.1, plain_of_plain x h.2⟩
  | .comp _ _ ps, h => by
      simp only [Amoco.Expr.Plain] at h
      simp only [Plain]; exact plainParts_of_plainParts ps h
  | .tst t l r _ _, h => by
      simp only [Amoco.Expr.Plain] at h
      simp only [Plain]; exact ⟨plain_of_plain t h.1, plain_of_plain l h.2.1, plain_of_plain r h.2.2⟩
  | .op o l r _ _ _, h => by
      simp only [Amoco.Expr.Plain] at h
      simp only [Plain]
      refine ⟨?_, plain_of_plain l h.2.1, plain_of_plain r h.2.2⟩
      have := h.1
      cases o <;> simp [Amoco.Expr.agnOp] at this <;> rfl
  | .uop o r _ _ _, h => by
      simp only [Amoco.Expr.Plain] at h
      simp only [Plain]; exact ⟨h.1, h.2.1, plain_of_plain r h.2.2⟩
  | .ptr .., h => by simp only [Amoco.Expr.Plain] at h
  | .mem .., h => by simp only [Amoco.Expr.Plain] at h
  | .vec .., h => by simp only [Amoco.Expr.Plain] at h
  | .vecw .., h => by simp only [Amoco.Expr.Plain] at h
  | .top .., h => by simp only [Amoco.Expr.Plain] at h
theorem plainParts_of_plainParts : ∀ ps : List Part, Amoco.Expr.PlainParts ps → PlainParts ps
  | [], _ => by simp only [PlainParts]
  | (_, _, e) :: tl, h => by
      simp only [Amoco.Expr.PlainParts] at h
      simp only [PlainParts]; exact ⟨plain_of_plain e h.1, plainParts_of_plainParts tl h.2⟩
end

/-- bit `j` of `a >>> n` (rotation right, `w` bits): bit `(j + n) mod w` of `a` -/
theorem ror_testBit (sg : Bool) (w a n j : Nat) (ha : a < 2 ^ w) (hj : j < w) :
    (binSem Op.ror sg w a n).testBit j = a.testBit ((j + n) % w) := by
  have hw : 0 < w := by omega
  have hm : n % w < w := Nat.mod_lt _ hw
  rw [← Nat.add_mod_mod]
  simp only [binSem]
  generalize n % w = m at hm ⊢
  rw [Nat.testBit_mod_two_pow, Nat.testBit_or, Nat.testBit_shiftRight, Nat.testBit_shiftLeft]
  simp only [hj, decide_true, Bool.true_and]
  by_cases h : j + m < w
  · rw [Nat.mod_eq_of_lt h]
    have : ¬ (j ≥ w - m) := by omega
    simp [this, Nat.add_comm]
  · have h1 : a.testBit (m + j) = false := by
      apply Nat.testBit_lt_two_pow
      exact Nat.lt_of_lt_of_le ha (Nat.pow_le_pow_right (by decide) (by omega))
    have h2 : (j + m) % w = j - (w - m) := by
      rw [Nat.mod_eq_sub_mod (by omega), Nat.mod_eq_of_lt (by omega)]; omega
    have : j ≥ w - m := by omega
    simp [h1, h2, this]

/-- the rotations give `w`-bit values -/
theorem rot_lt (o : Op) (ho : o = Op.ror ∨ o = Op.rol) (sg : Bool) (w a n : Nat) : binSem o sg w a n < 2 ^ w := by
  rcases ho with rfl | rfl <;> simp only [binSem] <;> exact Nat.mod_lt _ (Nat.two_pow_pos _)

/-- bit `j` of `a <<< n` (rotation left): bit `(j + (w - n mod w)) mod w` of `a` -/
theorem rol_testBit (sg : Bool) (w a n j : Nat) (ha : a < 2 ^ w) (hj : j < w) :
    (binSem Op.rol sg w a n).testBit j = a.testBit ((j + (w - n % w)) % w) := by
  have hw : 0 < w := by omega
  have hm : n % w < w := Nat.mod_lt _ hw
  simp only [binSem]
  generalize n % w = m at hm ⊢
  rw [Nat.testBit_mod_two_pow, Nat.testBit_or, Nat.testBit_shiftRight, Nat.testBit_shiftLeft]
  simp only [hj, decide_true, Bool.true_and]
  by_cases h : m ≤ j
  · have h1 : a.testBit (w - m + j) = false := by
      apply Nat.testBit_lt_two_pow
      exact Nat.lt_of_lt_of_le ha (Nat.pow_le_pow_right (by decide) (by omega))
    have h2 : (j + (w - m)) % w = j - m := by
      rw [Nat.mod_eq_sub_mod (by omega), Nat.mod_eq_of_lt (by omega)]; omega
    simp [h, h1, h2]
  · have h2 : (j + (w - m)) % w = w - m + j := by
      rw [Nat.mod_eq_of_lt (by omega)]; omega
    simp [h, h2]

/-- two values below `2^w` with the same low `w` bits are equal -/
theorem eq_of_low_bits (w x y : Nat) (hx : x < 2 ^ w) (hy : y < 2 ^ w) (h : ∀ j, j < w → x.testBit j = y.testBit j) : x = y := by
  apply Nat.eq_of_testBit_eq; intro j
  by_cases hj : j < w
  · exact h j hj
  · have e1 : x.testBit j = false :=
      Nat.testBit_lt_two_pow (Nat.lt_of_lt_of_le hx (Nat.pow_le_pow_right (by decide) (by omega)))
    have e2 : y.testBit j = false :=
      Nat.testBit_lt_two_pow (Nat.lt_of_lt_of_le hy (Nat.pow_le_pow_right (by decide) (by omega)))
    rw [e1, e2]

/-- `rol_as_ror`: `(a <<< n) = (a >>> (w - n mod w))` -/
theorem rol_as_ror (sg1 sg2 : Bool) (w a n : Nat) (ha : a < 2 ^ w) :
    binSem Op.rol sg1 w a n = binSem Op.ror sg2 w a (w - n % w) := by
  apply eq_of_low_bits w _ _ (rot_lt _ (Or.inr rfl) _ _ _ _) (rot_lt _ (Or.inl rfl) _ _ _ _)
  intro j hj
  rw [rol_testBit sg1 w a n j ha hj, ror_testBit sg2 w a _ j ha hj]

/-- rotation composition: `((a >>> n) >>> k) = (a >>> (n + k))` -/
theorem ror_ror (sg1 sg2 sg3 : Bool) (w a n k : Nat) (ha : a < 2 ^ w) (hw : 0 < w) :
    binSem Op.ror sg1 w (binSem Op.ror sg2 w a n) k = binSem Op.ror sg3 w a (n + k) := by
  apply eq_of_low_bits w _ _ (rot_lt _ (Or.inl rfl) _ _ _ _) (rot_lt _ (Or.inl rfl) _ _ _ _)
  intro j hj
  rw [ror_testBit sg1 w _ k j (rot_lt _ (Or.inl rfl) _ _ _ _) hj,
    ror_testBit sg2 w a n _ ha (Nat.mod_lt _ hw), ror_testBit sg3 w a _ j ha hj]
  congr 1
  rw [Nat.mod_add_mod]; congr 1; omega

/-- the amount of a rotation counts modulo the width; a rotation by the width is the identity -/
theorem ror_mod (sg : Bool) (w a n : Nat) : binSem Op.ror sg w a (n % w) = binSem Op.ror sg w a n := by
  simp only [binSem, Nat.mod_mod]

theorem ror_width (sg : Bool) (w a : Nat) (ha : a < 2 ^ w) : binSem Op.ror sg w a w = a := by
  rw [← ror_mod, Nat.mod_self]; exact rot_zero _ (Or.inl rfl) sg w a ha

/-- `ror` then `rol` by the same amount is the identity -/
theorem rol_ror (sg1 sg2 : Bool) (w a n : Nat) (ha : a < 2 ^ w) (hw : 0 < w) :
    binSem Op.rol sg1 w (binSem Op.ror sg2 w a n) n = a := by
  rw [rol_as_ror sg1 sg2 w _ n (rot_lt _ (Or.inl rfl) _ _ _ _), ror_ror sg2 sg2 sg2 w a n _ ha hw]
  rw [← ror_mod, ← Nat.mod_add_mod, Nat.add_sub_cancel' (Nat.le_of_lt (Nat.mod_lt _ hw)), Nat.mod_self]
  exact rot_zero _ (Or.inl rfl) sg2 w a ha

/-- slice of a rotation that does not wrap: `(a >>> n)[p:p+s] = a[p+n : p+n+s]` when `p + s + n mod w ≤ w` -/
theorem slice_ror_nowrap (sg : Bool) (w a n p s : Nat) (ha : a < 2 ^ w) (h : p + s + n % w ≤ w) (hs : 0 < s) :
    bitsOf (binSem Op.ror sg w a n) p s = bitsOf a (p + n % w) s := by
  have hw : 0 < w := by omega
  apply eq_of_low_bits s _ _ (by unfold bitsOf; exact Nat.mod_lt _ (Nat.two_pow_pos _)) (by unfold bitsOf; exact Nat.mod_lt _ (Nat.two_pow_pos _))
  intro j hj
  unfold bitsOf
  rw [Nat.testBit_mod_two_pow, Nat.testBit_mod_two_pow, Nat.testBit_shiftRight, Nat.testBit_shiftRight]
  rw [ror_testBit sg w a n (p + j) ha (by omega), ← Nat.add_mod_mod, Nat.mod_eq_of_lt (by omega)]
  congr 2; omega

end Amoco.Rot
