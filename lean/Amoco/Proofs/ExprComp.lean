/-
  Amoco.Proofs.ExprComp — the part-table bookkeeping of `comp` (`parts[...] = v`, `pop`, `cut`, `restruct`,
  the `__getitem__` loop): coverage counts, sizes.  Everything is stated with the re-entrant operations
  (`getitem`, `setitem`) as parameters satisfying a size specification.
-/
import Amoco.Model.Eval
import Mathlib.Tactic.SplitIfs
import Mathlib.Tactic.Linarith

namespace Amoco.Expr

/-- coverage count of bit `b` -/
abbrev cnt (b : Nat) (ps : List Part) : Nat := ps.countP (covers b)

/-- indicator of `lo ≤ b < hi` -/
def ind (lo hi b : Nat) : Nat := if lo ≤ b ∧ b < hi then 1 else 0

theorem covers_eq (b lo hi : Nat) (e : Expr) : covers b (lo, hi, e) = (decide (lo ≤ b) && decide (b < hi)) := rfl

theorem cnt_cons (b : Nat) (p : Part) (ps : List Part) : cnt b (p :: ps) = cnt b ps + ind p.1 p.2.1 b := by
  unfold cnt ind
  rw [List.countP_cons]
  congr 1
  unfold covers
  by_cases h1 : p.1 ≤ b <;> by_cases h2 : b < p.2.1 <;> simp [h1, h2]

theorem cnt_nil (b : Nat) : cnt b [] = 0 := rfl

theorem cnt_append (b : Nat) (ps qs : List Part) : cnt b (ps ++ qs) = cnt b ps + cnt b qs :=
  List.countP_append

theorem cnt_single (b lo hi : Nat) (e : Expr) : cnt b [(lo, hi, e)] = ind lo hi b := by
  rw [cnt_cons, cnt_nil]; simp

/-! ### dict operations -/

theorem findKey_some_mem {lo hi : Nat} {ps : List Part} {e : Expr} (h : findKey lo hi ps = some e) :
    (lo, hi, e) ∈ ps := by
  induction ps with
  | nil => simp [findKey] at h
  | cons p tl ih =>
    obtain ⟨a, b, x⟩ := p
    simp only [findKey] at h
    split at h
    · rename_i hk
      simp only [Bool.and_eq_true, beq_iff_eq] at hk
      obtain ⟨rfl, rfl⟩ := hk
      cases h
      exact List.mem_cons_self
    · exact List.mem_cons_of_mem _ (ih h)

theorem findKey_none {lo hi : Nat} {ps : List Part} (h : findKey lo hi ps = none) :
    ∀ p ∈ ps, ¬ (p.1 = lo ∧ p.2.1 = hi) := by
  induction ps with
  | nil => intro p hp; cases hp
  | cons q tl ih =>
    obtain ⟨a, b, x⟩ := q
    simp only [findKey] at h
    split at h
    · cases h
    · rename_i hk
      intro p hp
      rcases List.mem_cons.mp hp with rfl | hp
      · simpa [Bool.and_eq_true, beq_iff_eq] using hk
      · exact ih h p hp

theorem findKey_isSome_of_mem {lo hi : Nat} {ps : List Part} {e : Expr} (h : (lo, hi, e) ∈ ps) :
    (findKey lo hi ps).isSome := by
  cases hf : findKey lo hi ps with
  | some _ => rfl
  | none => exact absurd ⟨rfl, rfl⟩ (findKey_none hf _ h)

theorem assignKey_absent {lo hi : Nat} {ps : List Part} (v : Expr) (h : findKey lo hi ps = none) :
    assignKey lo hi v ps = ps ++ [(lo, hi, v)] := by
  induction ps with
  | nil => rfl
  | cons q tl ih =>
    obtain ⟨a, b, x⟩ := q
    simp only [findKey] at h
    split at h
    · cases h
    · rename_i hk
      simp only [assignKey, hk, List.cons_append]
      rw [ih h]; rfl

theorem mem_assignKey {lo hi : Nat} {v : Expr} {ps : List Part} {p : Part} (h : p ∈ assignKey lo hi v ps) :
    p ∈ ps ∨ p = (lo, hi, v) := by
  induction ps with
  | nil => simp [assignKey] at h; exact Or.inr h
  | cons q tl ih =>
    obtain ⟨a, b, x⟩ := q
    simp only [assignKey] at h
    split at h
    · rename_i hk
      simp only [Bool.and_eq_true, beq_iff_eq] at hk
      obtain ⟨rfl, rfl⟩ := hk
      rcases List.mem_cons.mp h with rfl | h
      · exact Or.inr rfl
      · exact Or.inl (List.mem_cons_of_mem _ h)
    · rcases List.mem_cons.mp h with rfl | h
      · exact Or.inl List.mem_cons_self
      · rcases ih h with h | h
        · exact Or.inl (List.mem_cons_of_mem _ h)
        · exact Or.inr h

theorem cnt_assignKey_present (b : Nat) {lo hi : Nat} (v : Expr) {ps : List Part} :
    (findKey lo hi ps).isSome → cnt b (assignKey lo hi v ps) = cnt b ps := by
  induction ps with
  | nil => intro h; simp [findKey] at h
  | cons q tl ih =>
    obtain ⟨a, c, x⟩ := q
    intro h
    simp only [findKey] at h
    simp only [assignKey]
    split
    · rw [cnt_cons, cnt_cons]
    · rename_i hk
      simp only [hk] at h
      rw [cnt_cons, cnt_cons, ih h]

theorem mem_popKey {lo hi : Nat} {ps : List Part} {p : Part} (h : p ∈ popKey lo hi ps) : p ∈ ps := by
  induction ps with
  | nil => simp [popKey] at h
  | cons q tl ih =>
    obtain ⟨a, b, x⟩ := q
    simp only [popKey] at h
    split at h
    · exact List.mem_cons_of_mem _ h
    · rcases List.mem_cons.mp h with rfl | h
      · exact List.mem_cons_self
      · exact List.mem_cons_of_mem _ (ih h)

theorem cnt_popKey (b : Nat) {lo hi : Nat} {ps : List Part} :
    (findKey lo hi ps).isSome → cnt b (popKey lo hi ps) + ind lo hi b = cnt b ps := by
  induction ps with
  | nil => intro h; simp [findKey] at h
  | cons q tl ih =>
    obtain ⟨a, c, x⟩ := q
    intro h
    simp only [findKey] at h
    simp only [popKey]
    split
    · rename_i hk
      simp only [Bool.and_eq_true, beq_iff_eq] at hk
      obtain ⟨rfl, rfl⟩ := hk
      rw [cnt_cons]
    · rename_i hk
      simp only [hk] at h
      rw [cnt_cons, cnt_cons, ← ih h]; omega

theorem popKey_absent {lo hi : Nat} {ps : List Part} (h : findKey lo hi ps = none) : popKey lo hi ps = ps := by
  induction ps with
  | nil => rfl
  | cons q tl ih =>
    obtain ⟨a, b, x⟩ := q
    simp only [findKey] at h
    split at h
    · cases h
    · rename_i hk
      simp only [popKey, hk]; rw [ih h]; rfl

/-- keys other than the popped one keep their binding -/
theorem findKey_popKey_ne {lo hi a c : Nat} {ps : List Part} (hne : ¬ (a = lo ∧ c = hi)) :
    findKey a c (popKey lo hi ps) = findKey a c ps := by
  induction ps with
  | nil => rfl
  | cons q tl ih =>
    obtain ⟨x, y, e⟩ := q
    simp only [popKey]
    split
    · rename_i hk
      simp only [Bool.and_eq_true, beq_iff_eq] at hk
      obtain ⟨rfl, rfl⟩ := hk
      have : ¬ ((x == a && y == c) = true) := by
        simp only [Bool.and_eq_true, beq_iff_eq]; intro ⟨h1, h2⟩; exact hne ⟨h1.symm, h2.symm⟩
      simp [findKey, this]
    · simp only [findKey, ih]

theorem findKey_assignKey_ne {lo hi a c : Nat} {v : Expr} {ps : List Part} (hne : ¬ (a = lo ∧ c = hi)) :
    findKey a c (assignKey lo hi v ps) = findKey a c ps := by
  induction ps with
  | nil =>
    have : ¬ ((lo == a && hi == c) = true) := by
      simp only [Bool.and_eq_true, beq_iff_eq]; intro ⟨h1, h2⟩; exact hne ⟨h1.symm, h2.symm⟩
    simp [assignKey, findKey, this]
  | cons q tl ih =>
    obtain ⟨x, y, e⟩ := q
    simp only [assignKey]
    split
    · rename_i hk
      simp only [Bool.and_eq_true, beq_iff_eq] at hk
      obtain ⟨rfl, rfl⟩ := hk
      have : ¬ ((x == a && y == c) = true) := by
        simp only [Bool.and_eq_true, beq_iff_eq]; intro ⟨h1, h2⟩; exact hne ⟨h1.symm, h2.symm⟩
      simp [findKey, this]
    · simp only [findKey, ih]

/-! ### well-formed part lists -/

theorem WFParts_iff (ps : List Part) : WFParts ps ↔ ∀ p ∈ ps, WF p.2.2 := by
  induction ps with
  | nil => simp [WFParts]
  | cons q tl ih =>
    obtain ⟨a, b, e⟩ := q
    simp only [WFParts, ih, List.mem_cons, forall_eq_or_imp]

/-- size specification of a `getitem`-like operation -/
def GiSpec (gi : Expr → Nat → Nat → R Expr) : Prop :=
  ∀ x a b r, WF x → a < b → b ≤ x.size → gi x a b = .ok r → WF r ∧ r.size = b - a

theorem ind_split (lo hi sta sto b : Nat) (h1 : lo < hi) (h2 : sta < sto) (h3 : lo < sto) (h4 : sta < hi) :
    ind lo hi b = ind (max lo sta) (min hi sto) b + (if lo < sta then ind lo sta b else 0)
      + (if hi > sto then ind sto hi b else 0) := by
  unfold ind
  split_ifs <;> omega

/-- the loop of `cut`: each listed part is replaced by its pieces outside `[sta, sto)`. -/
theorem cutLoop_spec (gi : Expr → Nat → Nat → R Expr) (hgi : GiSpec gi) (n sta sto : Nat) (hr : sta < sto) :
    ∀ (todo ps ps' : List Part),
      (∀ p ∈ todo, findKey p.1 p.2.1 ps = some p.2.2 ∧ p.1 < p.2.1 ∧ p.2.2.size = p.2.1 - p.1 ∧ WF p.2.2
                    ∧ p.1 < sto ∧ sta < p.2.1 ∧ p.2.1 ≤ n) →
      todo.Pairwise (fun p q => p.2.1 ≤ q.1) →
      (∀ p ∈ todo, p.1 < sta → findKey p.1 sta ps = none) →
      (∀ p ∈ todo, sto < p.2.1 → findKey sto p.2.1 ps = none) →
      Sized n ps → (∀ p ∈ ps, WF p.2.2) →
      cutLoop gi sta sto todo ps = .ok ps' →
      Sized n ps' ∧ (∀ p ∈ ps', WF p.2.2) ∧
        ∀ b, cnt b ps' + (todo.map (fun p => ind (max p.1 sta) (min p.2.1 sto) b)).sum = cnt b ps := by
  intro todo
  induction todo with
  | nil =>
    intro ps ps' _ _ _ _ hs hw h
    simp only [cutLoop] at h
    cases h
    exact ⟨hs, hw, by intro b; simp⟩
  | cons p tl ih =>
    obtain ⟨lo, hi, nv⟩ := p
    intro ps ps' hall hpw habs1 habs2 hs hw h
    obtain ⟨hfk, hlt, hsz, hwf, hov1, hov2, hhi⟩ := hall (lo, hi, nv) List.mem_cons_self
    simp only at hfk hlt hsz hwf hov1 hov2 hhi
    have hpw' := List.pairwise_cons.mp hpw
    simp only [cutLoop] at h
    -- the three intermediate tables
    generalize hps1 : popKey lo hi ps = ps1 at h
    have hmem1 : ∀ q ∈ ps1, q ∈ ps := by intro q hq; rw [← hps1] at hq; exact mem_popKey hq
    have hcnt1 : ∀ b, cnt b ps1 + ind lo hi b = cnt b ps := by
      intro b; rw [← hps1]; exact cnt_popKey b (by rw [hfk]; rfl)
    have hstep2 : ∃ ps2, cutHead gi sta lo nv ps1 = Except.ok ps2
        ∧ (∃ ps3, cutTail gi sto lo hi nv ps2 = Except.ok ps3 ∧ cutLoop gi sta sto tl ps3 = .ok ps') := by
      cases h2 : cutHead gi sta lo nv ps1 with
      | error e => rw [h2] at h; cases h
      | ok ps2 =>
        rw [h2] at h
        simp only at h
        refine ⟨ps2, rfl, ?_⟩
        cases h3 : cutTail gi sto lo hi nv ps2 with
        | error e => rw [h3] at h; cases h
        | ok ps3 =>
          rw [h3] at h
          simp only at h
          exact ⟨ps3, rfl, h⟩
    obtain ⟨ps2, h2, ps3, h3, hrec⟩ := hstep2
    -- facts about ps2
    have hf1 : lo < sta → findKey lo sta ps1 = none := by
      intro hl
      rw [← hps1, findKey_popKey_ne (by omega)]
      exact habs1 _ List.mem_cons_self hl
    have hps2 : (∀ q ∈ ps2, q ∈ ps1 ∨ (lo < sta ∧ q.1 = lo ∧ q.2.1 = sta ∧ WF q.2.2 ∧ q.2.2.size = sta - lo))
        ∧ (∀ b, cnt b ps2 = cnt b ps1 + (if lo < sta then ind lo sta b else 0))
        ∧ (∀ a c, ¬ (a = lo ∧ c = sta) → findKey a c ps2 = findKey a c ps1) := by
      by_cases hl : lo < sta
      · simp only [cutHead, hl, if_true] at h2
        cases hg : gi nv 0 (sta - lo) with
        | error e => rw [hg] at h2; cases h2
        | ok hd =>
          rw [hg] at h2
          cases h2
          have := hgi nv 0 (sta - lo) hd hwf (by omega) (by omega) hg
          refine ⟨?_, ?_, ?_⟩
          · intro q hq
            rcases mem_assignKey hq with hq | rfl
            · exact Or.inl hq
            · exact Or.inr ⟨hl, rfl, rfl, this.1, by simpa using this.2⟩
          · intro b
            rw [assignKey_absent _ (hf1 hl), cnt_append, cnt_single]; simp [hl]
          · intro a c hne; exact findKey_assignKey_ne hne
      · simp only [cutHead, hl, if_false] at h2
        cases h2
        exact ⟨fun q hq => Or.inl hq, by intro b; simp [hl], fun _ _ _ => rfl⟩
    obtain ⟨hm2, hc2, hk2⟩ := hps2
    have hf2 : sto < hi → findKey sto hi ps2 = none := by
      intro hl
      rw [hk2 _ _ (by omega), ← hps1, findKey_popKey_ne (by omega)]
      exact habs2 _ List.mem_cons_self hl
    have hps3 : (∀ q ∈ ps3, q ∈ ps2 ∨ (sto < hi ∧ q.1 = sto ∧ q.2.1 = hi ∧ WF q.2.2 ∧ q.2.2.size = hi - sto))
        ∧ (∀ b, cnt b ps3 = cnt b ps2 + (if hi > sto then ind sto hi b else 0))
        ∧ (∀ a c, ¬ (a = sto ∧ c = hi) → findKey a c ps3 = findKey a c ps2) := by
      by_cases hl : hi > sto
      · simp only [cutTail, hl, if_true] at h3
        cases hg : gi nv (sto - lo) (hi - lo) with
        | error e => rw [hg] at h3; cases h3
        | ok tlp =>
          rw [hg] at h3
          cases h3
          have := hgi nv (sto - lo) (hi - lo) tlp hwf (by omega) (by omega) hg
          refine ⟨?_, ?_, ?_⟩
          · intro q hq
            rcases mem_assignKey hq with hq | rfl
            · exact Or.inl hq
            · exact Or.inr ⟨hl, rfl, rfl, this.1, by rw [this.2]; omega⟩
          · intro b
            rw [assignKey_absent _ (hf2 hl), cnt_append, cnt_single]; simp [hl]
          · intro a c hne; exact findKey_assignKey_ne hne
      · simp only [cutTail, hl, if_false] at h3
        cases h3
        exact ⟨fun q hq => Or.inl hq, by intro b; simp [hl], fun _ _ _ => rfl⟩
    obtain ⟨hm3, hc3, hk3⟩ := hps3
    -- recursive call
    have hall' : ∀ q ∈ tl, findKey q.1 q.2.1 ps3 = some q.2.2 ∧ q.1 < q.2.1 ∧ q.2.2.size = q.2.1 - q.1 ∧ WF q.2.2
                    ∧ q.1 < sto ∧ sta < q.2.1 ∧ q.2.1 ≤ n := by
      intro q hq
      have hq' := hall q (List.mem_cons_of_mem _ hq)
      have hord := hpw'.1 q hq
      simp only at hord
      refine ⟨?_, hq'.2⟩
      rw [hk3 _ _ (by omega), hk2 _ _ (by omega), ← hps1, findKey_popKey_ne (by omega)]
      exact hq'.1
    have habs1' : ∀ q ∈ tl, q.1 < sta → findKey q.1 sta ps3 = none := by
      intro q hq hl
      have hord := hpw'.1 q hq
      simp only at hord
      rw [hk3 _ _ (by omega), hk2 _ _ (by omega), ← hps1, findKey_popKey_ne (by omega)]
      exact habs1 q (List.mem_cons_of_mem _ hq) hl
    have habs2' : ∀ q ∈ tl, sto < q.2.1 → findKey sto q.2.1 ps3 = none := by
      intro q hq hl
      have hord := hpw'.1 q hq
      have hq' := hall q (List.mem_cons_of_mem _ hq)
      simp only at hord
      rw [hk3 _ _ (by omega), hk2 _ _ (by omega), ← hps1, findKey_popKey_ne (by omega)]
      exact habs2 q (List.mem_cons_of_mem _ hq) hl
    have hs3 : Sized n ps3 := by
      intro q hq
      rcases hm3 q hq with hq | ⟨hl, h1, h2, _, h4⟩
      · rcases hm2 q hq with hq | ⟨hl, h1, h2, _, h4⟩
        · exact hs q (hmem1 q hq)
        · rw [h1, h2, h4]; omega
      · rw [h1, h2, h4]; omega
    have hw3 : ∀ q ∈ ps3, WF q.2.2 := by
      intro q hq
      rcases hm3 q hq with hq | ⟨_, _, _, h3, _⟩
      · rcases hm2 q hq with hq | ⟨_, _, _, h3, _⟩
        · exact hw q (hmem1 q hq)
        · exact h3
      · exact h3
    obtain ⟨r1, r2, r3⟩ := ih ps3 ps' hall' hpw'.2 habs1' habs2' hs3 hw3 hrec
    refine ⟨r1, r2, ?_⟩
    intro b
    have := r3 b
    simp only [List.map_cons, List.sum_cons]
    have e := ind_split lo hi sta sto b hlt hr hov1 hov2
    have := hc3 b
    have := hc2 b
    have := hcnt1 b
    omega

/-! ### disjoint part tables -/

theorem ind_le_one (lo hi b : Nat) : ind lo hi b ≤ 1 := by unfold ind; split <;> omega

theorem cnt_pos_of_mem {b : Nat} {ps : List Part} {p : Part} (hp : p ∈ ps) (hc : p.1 ≤ b ∧ b < p.2.1) :
    1 ≤ cnt b ps := by
  induction ps with
  | nil => cases hp
  | cons q tl ih =>
    rw [cnt_cons]
    rcases List.mem_cons.mp hp with rfl | hp
    · have : ind p.1 p.2.1 b = 1 := by unfold ind; simp [hc]
      omega
    · have := ih hp; omega

theorem Disj.cnt_le {n : Nat} {ps : List Part} (h : Disj n ps) (b : Nat) : cnt b ps ≤ 1 := h.2 b

theorem Disj.tail {n : Nat} {p : Part} {ps : List Part} (h : Disj n (p :: ps)) : Disj n ps := by
  refine ⟨fun q hq => h.1 q (List.mem_cons_of_mem _ hq), fun b => ?_⟩
  have := h.cnt_le b
  rw [cnt_cons] at this
  show cnt b ps ≤ 1
  omega

/-- in a disjoint table a bit is covered by at most one entry -/
theorem Disj.unique {n : Nat} {ps : List Part} (h : Disj n ps) {p q : Part} {b : Nat}
    (hp : p ∈ ps) (hq : q ∈ ps) (cp : p.1 ≤ b ∧ b < p.2.1) (cq : q.1 ≤ b ∧ b < q.2.1) : p = q := by
  induction ps with
  | nil => cases hp
  | cons x tl ih =>
    have hb := h.cnt_le b
    rw [cnt_cons] at hb
    rcases List.mem_cons.mp hp with rfl | hp' <;> rcases List.mem_cons.mp hq with rfl | hq'
    · rfl
    · have := cnt_pos_of_mem hq' cq
      have : ind p.1 p.2.1 b = 1 := by unfold ind; simp [cp]
      omega
    · have := cnt_pos_of_mem hp' cp
      have : ind q.1 q.2.1 b = 1 := by unfold ind; simp [cq]
      omega
    · exact ih h.tail hp' hq'

theorem Disj.findKey_of_mem {n : Nat} {ps : List Part} (h : Disj n ps) {lo hi : Nat} {e : Expr}
    (hm : (lo, hi, e) ∈ ps) : findKey lo hi ps = some e := by
  cases hf : findKey lo hi ps with
  | none => exact absurd ⟨rfl, rfl⟩ (findKey_none hf _ hm)
  | some e' =>
    have hm' := findKey_some_mem hf
    have hs := h.1 _ hm
    simp only at hs
    have := h.unique hm hm' (b := lo) ⟨Nat.le_refl _, hs.1⟩ ⟨Nat.le_refl _, hs.1⟩
    cases this; rfl

theorem findKey_append_some {lo hi : Nat} {ps qs : List Part} {e : Expr} (h : findKey lo hi ps = some e) :
    findKey lo hi (ps ++ qs) = some e := by
  induction ps with
  | nil => simp [findKey] at h
  | cons q tl ih =>
    obtain ⟨a, b, x⟩ := q
    simp only [findKey, List.cons_append] at h ⊢
    split
    · rename_i hk; simp only [hk, if_true] at h; exact h
    · rename_i hk; simp only [hk] at h; exact ih h

theorem findKey_append_none {lo hi : Nat} {ps qs : List Part} (h1 : findKey lo hi ps = none)
    (h2 : findKey lo hi qs = none) : findKey lo hi (ps ++ qs) = none := by
  induction ps with
  | nil => simpa using h2
  | cons q tl ih =>
    obtain ⟨a, b, x⟩ := q
    simp only [findKey, List.cons_append] at h1 ⊢
    split
    · rename_i hk; simp only [hk, if_true] at h1; cases h1
    · rename_i hk; simp only [hk] at h1; exact ih h1

/-! ### sorting by position -/

theorem perm_insertPart (p : Part) (l : List Part) : (insertPart p l).Perm (p :: l) := by
  induction l with
  | nil => exact List.Perm.refl _
  | cons q tl ih =>
    simp only [insertPart]
    split
    · exact List.Perm.refl _
    · exact (List.Perm.cons q ih).trans (List.Perm.swap p q tl)

theorem perm_sortParts (l : List Part) : (sortParts l).Perm l := by
  induction l with
  | nil => exact List.Perm.refl _
  | cons p tl ih =>
    simp only [sortParts]
    exact (perm_insertPart p _).trans (List.Perm.cons p ih)

theorem sorted_insertPart (p : Part) (l : List Part) (h : l.Pairwise (fun a b => a.1 ≤ b.1)) :
    (insertPart p l).Pairwise (fun a b => a.1 ≤ b.1) := by
  induction l with
  | nil => simp [insertPart]
  | cons q tl ih =>
    simp only [insertPart]
    have hq := List.pairwise_cons.mp h
    split
    · rename_i hlt
      refine List.pairwise_cons.mpr ⟨?_, h⟩
      intro x hx
      rcases List.mem_cons.mp hx with rfl | hx
      · omega
      · have := hq.1 x hx; omega
    · rename_i hge
      refine List.pairwise_cons.mpr ⟨?_, ih hq.2⟩
      intro x hx
      rcases List.mem_cons.mp ((perm_insertPart p tl).subset hx) with rfl | hx
      · omega
      · exact hq.1 x hx

theorem sorted_sortParts (l : List Part) : (sortParts l).Pairwise (fun a b => a.1 ≤ b.1) := by
  induction l with
  | nil => simp [sortParts]
  | cons p tl ih => exact sorted_insertPart p _ ih

/-- entries of a disjoint table are pairwise range-disjoint -/
theorem Disj.pairwise {n : Nat} {ps : List Part} (h : Disj n ps) :
    ps.Pairwise (fun p q => p.2.1 ≤ q.1 ∨ q.2.1 ≤ p.1) := by
  induction ps with
  | nil => exact List.Pairwise.nil
  | cons p tl ih =>
    refine List.pairwise_cons.mpr ⟨?_, ih h.tail⟩
    intro q hq
    by_contra hc
    have hp := h.1 p List.mem_cons_self
    have hq' := h.1 q (List.mem_cons_of_mem _ hq)
    have hb := h.cnt_le (max p.1 q.1)
    rw [cnt_cons] at hb
    have h1 : ind p.1 p.2.1 (max p.1 q.1) = 1 := by unfold ind; rw [if_pos]; omega
    have h2 := cnt_pos_of_mem (b := max p.1 q.1) hq (by omega)
    omega

/-- the parts overlapping `[sta, sto)`, in position order, do not overlap each other -/
theorem overlapping_pairwise {n sta sto : Nat} {ps : List Part} (h : Disj n ps) :
    (overlapping sta sto ps).Pairwise (fun p q => p.2.1 ≤ q.1) := by
  unfold overlapping
  set l := ps.filter (fun p => decide (p.1 < sto) && decide (sta < p.2.1)) with hl
  have hsub : ∀ p ∈ sortParts l, p ∈ ps := by
    intro p hp
    have := (perm_sortParts l).subset hp
    exact (List.mem_filter.mp this).1
  have hd : l.Pairwise (fun p q => p.2.1 ≤ q.1 ∨ q.2.1 ≤ p.1) :=
    (h.pairwise).sublist List.filter_sublist
  have hd' : (sortParts l).Pairwise (fun p q => p.2.1 ≤ q.1 ∨ q.2.1 ≤ p.1) := by
    refine ((perm_sortParts l).pairwise_iff ?_).mpr hd
    intro a b hab; exact hab.symm
  have hs := sorted_sortParts l
  have := hs.and hd'
  refine this.imp_of_mem ?_
  intro a b ha hb hab
  have sa := h.1 a (hsub a ha)
  have sb := h.1 b (hsub b hb)
  rcases hab.2 with h' | h'
  · exact h'
  · have := hab.1; omega

theorem mem_overlapping {sta sto : Nat} {ps : List Part} {p : Part} (h : p ∈ overlapping sta sto ps) :
    p ∈ ps ∧ p.1 < sto ∧ sta < p.2.1 := by
  unfold overlapping at h
  have := (perm_sortParts _).subset h
  have := List.mem_filter.mp this
  simpa using this

theorem sum_overlapping (sta sto b : Nat) (ps : List Part) :
    ((overlapping sta sto ps).map (fun p => ind (max p.1 sta) (min p.2.1 sto) b)).sum
      = if sta ≤ b ∧ b < sto then cnt b ps else 0 := by
  unfold overlapping
  rw [((perm_sortParts _).map _).sum_nat]
  induction ps with
  | nil => simp [cnt]
  | cons p tl ih =>
    rw [List.filter_cons]
    rw [cnt_cons]
    split
    · rename_i hov
      simp only [Bool.and_eq_true, decide_eq_true_eq] at hov
      simp only [List.map_cons, List.sum_cons, ih]
      unfold ind
      split_ifs <;> omega
    · rename_i hov
      simp only [Bool.and_eq_true, decide_eq_true_eq, not_and, not_lt] at hov
      rw [ih]
      unfold ind
      split_ifs <;> omega

/-- `parts[(sta,sto)] = v; cut(sta,sto)` on a disjoint table: the new part owns `[sta,sto)`, every other bit
    keeps its coverage; the table stays disjoint and well-formed. -/
theorem setPart_spec (gi : Expr → Nat → Nat → R Expr) (hgi : GiSpec gi) (n sta sto : Nat) (v : Expr)
    (parts ps' : List Part) (hd : Disj n parts) (hw : ∀ p ∈ parts, WF p.2.2) (hv : WF v)
    (hvs : v.size = sto - sta) (hr : sta < sto) (hn : sto ≤ n)
    (h : setPart gi sta sto v parts = .ok ps') :
    Disj n ps' ∧ (∀ p ∈ ps', WF p.2.2) ∧ ∀ b, cnt b ps' = if sta ≤ b ∧ b < sto then 1 else cnt b parts := by
  unfold setPart at h
  have key : Sized n ps' ∧ (∀ p ∈ ps', WF p.2.2) ∧ ∀ b, cnt b ps' = if sta ≤ b ∧ b < sto then 1 else cnt b parts := by
    cases hf : findKey sta sto parts with
    | some e =>
      rw [hf] at h
      cases h
      have hm := findKey_some_mem hf
      refine ⟨?_, ?_, ?_⟩
      · intro p hp
        rcases mem_assignKey hp with hp | rfl
        · exact hd.1 p hp
        · exact ⟨hr, hn, hvs⟩
      · intro p hp
        rcases mem_assignKey hp with hp | rfl
        · exact hw p hp
        · exact hv
      · intro b
        rw [cnt_assignKey_present b v (by rw [hf]; rfl)]
        split
        · rename_i hb
          have := cnt_pos_of_mem hm (b := b) hb
          have := hd.cnt_le b
          omega
        · rfl
    | none =>
      rw [hf] at h
      simp only at h
      have hs0 : Sized n (parts ++ [(sta, sto, v)]) := by
        intro p hp
        rcases List.mem_append.mp hp with hp | hp
        · exact hd.1 p hp
        · simp only [List.mem_singleton] at hp; subst hp; exact ⟨hr, hn, hvs⟩
      have hw0 : ∀ p ∈ parts ++ [(sta, sto, v)], WF p.2.2 := by
        intro p hp
        rcases List.mem_append.mp hp with hp | hp
        · exact hw p hp
        · simp only [List.mem_singleton] at hp; subst hp; exact hv
      have hall : ∀ p ∈ overlapping sta sto parts,
          findKey p.1 p.2.1 (parts ++ [(sta, sto, v)]) = some p.2.2 ∧ p.1 < p.2.1 ∧ p.2.2.size = p.2.1 - p.1 ∧ WF p.2.2
            ∧ p.1 < sto ∧ sta < p.2.1 ∧ p.2.1 ≤ n := by
        intro p hp
        obtain ⟨hm, h1, h2⟩ := mem_overlapping hp
        have hs := hd.1 p hm
        exact ⟨findKey_append_some (hd.findKey_of_mem (lo := p.1) (hi := p.2.1) (e := p.2.2) hm), hs.1, hs.2.2, hw p hm, h1, h2, hs.2.1⟩
      have single_none : ∀ a c, ¬ (a = sta ∧ c = sto) → findKey a c [(sta, sto, v)] = none := by
        intro a c hne
        have : ¬ ((sta == a && sto == c) = true) := by
          simp only [Bool.and_eq_true, beq_iff_eq]; intro ⟨h1, h2⟩; exact hne ⟨h1.symm, h2.symm⟩
        simp [findKey, this]
      have habs1 : ∀ p ∈ overlapping sta sto parts, p.1 < sta → findKey p.1 sta (parts ++ [(sta, sto, v)]) = none := by
        intro p hp hl
        obtain ⟨hm, h1, h2⟩ := mem_overlapping hp
        apply findKey_append_none _ (single_none _ _ (by omega))
        cases hk : findKey p.1 sta parts with
        | none => rfl
        | some e' =>
          have hm' := findKey_some_mem hk
          have hs := hd.1 p hm
          have := hd.unique hm hm' (b := p.1) ⟨Nat.le_refl _, hs.1⟩ ⟨Nat.le_refl _, hl⟩
          have : p.2.1 = sta := by rw [this]
          omega
      have habs2 : ∀ p ∈ overlapping sta sto parts, sto < p.2.1 → findKey sto p.2.1 (parts ++ [(sta, sto, v)]) = none := by
        intro p hp hl
        obtain ⟨hm, h1, h2⟩ := mem_overlapping hp
        apply findKey_append_none _ (single_none _ _ (by omega))
        cases hk : findKey sto p.2.1 parts with
        | none => rfl
        | some e' =>
          have hm' := findKey_some_mem hk
          have hs := hd.1 p hm
          have := hd.unique hm hm' (b := p.2.1 - 1) ⟨by omega, by omega⟩ ⟨by simp only; omega, by simp only; omega⟩
          have : p.1 = sto := by rw [this]
          omega
      obtain ⟨r1, r2, r3⟩ := cutLoop_spec gi hgi n sta sto hr _ _ _ hall (overlapping_pairwise hd) habs1 habs2 hs0 hw0 h
      refine ⟨r1, r2, ?_⟩
      intro b
      have := r3 b
      rw [sum_overlapping, cnt_append, cnt_single] at this
      have hle := hd.cnt_le b
      unfold ind at this
      split_ifs at this ⊢ <;> omega
  refine ⟨⟨key.1, ?_⟩, key.2.1, key.2.2⟩
  intro b
  have := key.2.2 b
  have hle := hd.cnt_le b
  show cnt b ps' ≤ 1
  split_ifs at this <;> omega

/-! ### `restruct` -/

theorem WF_mkCst (x : Int) (s : Nat) (hs : 0 < s) : WF (mkCst x s) := by
  unfold mkCst
  simp only [WF]
  refine ⟨hs, ?_⟩
  have hp : (0 : Int) < ((2 ^ s : Nat) : Int) := by exact_mod_cast Nat.two_pow_pos s
  have h1 := Int.emod_lt_of_pos x hp
  have h0 := Int.emod_nonneg x (ne_of_gt hp)
  omega

theorem size_mkCst (x : Int) (s : Nat) : (mkCst x s).size = s := rfl

theorem restructFind_spec (l : List Part) (A B : Part) (m : Expr) (h : restructFind l = some (A, B, m)) :
    A ∈ l ∧ B ∈ l ∧ A.2.1 = B.1 ∧
      ((∃ x, m = mkCst x (A.2.2.size + B.2.2.size)) ∨ m = mkTop (B.2.1 - A.1)) := by
  induction l with
  | nil => simp [restructFind] at h
  | cons p rest ih =>
    obtain ⟨alo, ahi, a⟩ := p
    cases rest with
    | nil => simp [restructFind] at h
    | cons q tl =>
      obtain ⟨blo, bhi, b⟩ := q
      simp only [restructFind] at h
      have rec_case : restructFind ((blo, bhi, b) :: tl) = some (A, B, m) →
          A ∈ (alo, ahi, a) :: (blo, bhi, b) :: tl ∧ B ∈ (alo, ahi, a) :: (blo, bhi, b) :: tl ∧ A.2.1 = B.1 ∧
            ((∃ x, m = mkCst x (A.2.2.size + B.2.2.size)) ∨ m = mkTop (B.2.1 - A.1)) := by
        intro h'
        obtain ⟨h1, h2, h3⟩ := ih h'
        exact ⟨List.mem_cons_of_mem _ h1, List.mem_cons_of_mem _ h2, h3⟩
      split at h
      · rename_i hadj
        simp only [beq_iff_eq] at hadj
        split at h
        · cases h
          exact ⟨List.mem_cons_self, List.mem_cons_of_mem _ List.mem_cons_self, hadj, Or.inl ⟨_, rfl⟩⟩
        · split at h
          · cases h
            exact ⟨List.mem_cons_self, List.mem_cons_of_mem _ List.mem_cons_self, hadj, Or.inr rfl⟩
          · exact rec_case h
      · exact rec_case h

/-- one merge step of `restruct`: everything the later proofs need to know about the new table -/
theorem restruct_step (n : Nat) (ps : List Part) (alo ahi blo bhi : Nat) (a b m : Expr)
    (hd : Disj n ps) (hw : ∀ p ∈ ps, WF p.2.2)
    (hf : restructFind (sortParts ps) = some ((alo, ahi, a), (blo, bhi, b), m)) :
    let ps3 := popKey blo bhi (popKey alo ahi (assignKey alo bhi m ps))
    Disj n ps3 ∧ (∀ p ∈ ps3, WF p.2.2) ∧ (∀ x, cnt x ps3 = cnt x ps) ∧
      (∀ p ∈ ps3, p ∈ ps ∨ p = (alo, bhi, m)) ∧ ps3.length + 1 = ps.length ∧
      (alo, ahi, a) ∈ ps ∧ (blo, bhi, b) ∈ ps ∧ ahi = blo ∧ alo < ahi ∧ blo < bhi ∧
      assignKey alo bhi m ps = ps ++ [(alo, bhi, m)] ∧
      findKey alo ahi (ps ++ [(alo, bhi, m)]) = some a ∧
      findKey blo bhi (popKey alo ahi (ps ++ [(alo, bhi, m)])) = some b ∧
      findKey alo ahi ps = some a ∧ findKey blo bhi (popKey alo ahi ps) = some b := by
  intro ps3
  obtain ⟨hA, hB, hadj, hm⟩ := restructFind_spec _ _ _ _ hf
  simp only at hadj hm
  have hA' : (alo, ahi, a) ∈ ps := (perm_sortParts ps).subset hA
  have hB' : (blo, bhi, b) ∈ ps := (perm_sortParts ps).subset hB
  have sA := hd.1 _ hA'
  have sB := hd.1 _ hB'
  simp only at sA sB
  have hmsz : m.size = bhi - alo := by
    rcases hm with ⟨x, rfl⟩ | rfl
    · rw [size_mkCst]; omega
    · rfl
  have hmwf : WF m := by
    rcases hm with ⟨x, rfl⟩ | rfl
    · exact WF_mkCst _ _ (by omega)
    · simp only [mkTop, WF]; omega
  have hnew : findKey alo bhi ps = none := by
    cases hk : findKey alo bhi ps with
    | none => rfl
    | some e' =>
      have hm' := findKey_some_mem hk
      have := hd.unique hA' hm' (b := alo) ⟨Nat.le_refl _, sA.1⟩ ⟨Nat.le_refl _, by simp only; omega⟩
      have : ahi = bhi := by have := congrArg (fun p : Part => p.2.1) this; simpa using this
      omega
  have e1 : assignKey alo bhi m ps = ps ++ [(alo, bhi, m)] := assignKey_absent m hnew
  have hfA0 : findKey alo ahi ps = some a := hd.findKey_of_mem hA'
  have hfB0 : findKey blo bhi ps = some b := hd.findKey_of_mem hB'
  have hfA : findKey alo ahi (ps ++ [(alo, bhi, m)]) = some a := findKey_append_some hfA0
  have hfB : findKey blo bhi (popKey alo ahi (ps ++ [(alo, bhi, m)])) = some b := by
    rw [findKey_popKey_ne (by omega)]; exact findKey_append_some hfB0
  have hfB1 : findKey blo bhi (popKey alo ahi ps) = some b := by
    rw [findKey_popKey_ne (by omega)]; exact hfB0
  have hps3 : ps3 = popKey blo bhi (popKey alo ahi (ps ++ [(alo, bhi, m)])) := by
    show popKey blo bhi (popKey alo ahi (assignKey alo bhi m ps)) = _
    rw [e1]
  have hc : ∀ x, cnt x ps3 = cnt x ps := by
    intro x
    have h3 := cnt_popKey x (lo := blo) (hi := bhi) (ps := popKey alo ahi (ps ++ [(alo, bhi, m)])) (by rw [hfB]; rfl)
    have h2 := cnt_popKey x (lo := alo) (hi := ahi) (ps := ps ++ [(alo, bhi, m)]) (by rw [hfA]; rfl)
    have h1 : cnt x (ps ++ [(alo, bhi, m)]) = cnt x ps + ind alo bhi x := by rw [cnt_append, cnt_single]
    rw [← hps3] at h3
    unfold ind at *
    split_ifs at * <;> omega
  have hmem : ∀ p ∈ ps3, p ∈ ps ∨ p = (alo, bhi, m) := by
    intro p hp
    rw [hps3] at hp
    have := mem_popKey (mem_popKey hp)
    rcases List.mem_append.mp this with h | h
    · exact Or.inl h
    · exact Or.inr (by simpa using h)
  have hlen : ps3.length + 1 = ps.length := by
    rw [hps3]
    have l1 : ∀ (lo hi : Nat) (qs : List Part), (findKey lo hi qs).isSome → (popKey lo hi qs).length + 1 = qs.length := by
      intro lo hi qs
      induction qs with
      | nil => intro h; simp [findKey] at h
      | cons q tl ih =>
        obtain ⟨x, y, e⟩ := q
        intro h
        simp only [findKey] at h
        simp only [popKey]
        split
        · rfl
        · rename_i hk
          simp only [hk] at h
          simp only [List.length_cons]
          have := ih h
          omega
    have a1 := l1 blo bhi _ (by rw [hfB]; rfl)
    have a2 := l1 alo ahi (ps ++ [(alo, bhi, m)]) (by rw [hfA]; rfl)
    simp only [List.length_append, List.length_cons, List.length_nil] at a2
    omega
  refine ⟨⟨?_, fun x => ?_⟩, ?_, hc, hmem, hlen, hA', hB', hadj, sA.1, sB.1, e1, hfA, hfB, hfA0, hfB1⟩
  · intro p hp
    rcases hmem p hp with h | rfl
    · exact hd.1 p h
    · exact ⟨by simp only; omega, by simp only; omega, hmsz⟩
  · show cnt x ps3 ≤ 1
    rw [hc x]; exact hd.cnt_le x
  · intro p hp
    rcases hmem p hp with h | rfl
    · exact hw p h
    · exact hmwf

theorem restructN_spec (n : Nat) : ∀ (k : Nat) (ps : List Part), Disj n ps → (∀ p ∈ ps, WF p.2.2) →
    Disj n (restructN k ps) ∧ (∀ p ∈ restructN k ps, WF p.2.2) ∧ ∀ b, cnt b (restructN k ps) = cnt b ps := by
  intro k
  induction k with
  | zero => intro ps hd hw; exact ⟨hd, hw, fun _ => rfl⟩
  | succ k ih =>
    intro ps hd hw
    simp only [restructN]
    cases hf : restructFind (sortParts ps) with
    | none => exact ⟨hd, hw, fun _ => rfl⟩
    | some t =>
      obtain ⟨A, B, m⟩ := t
      obtain ⟨alo, ahi, a⟩ := A
      obtain ⟨blo, bhi, b⟩ := B
      simp only
      obtain ⟨hd3, hw3, hc, _⟩ := restruct_step n ps alo ahi blo bhi a b m hd hw hf
      obtain ⟨r1, r2, r3⟩ := ih _ hd3 hw3
      exact ⟨r1, r2, fun x => by rw [r3 x, hc x]⟩

theorem restruct_spec (n : Nat) (ps : List Part) (hd : Disj n ps) (hw : ∀ p ∈ ps, WF p.2.2) :
    Disj n (restruct ps) ∧ (∀ p ∈ restruct ps, WF p.2.2) ∧ ∀ b, cnt b (restruct ps) = cnt b ps :=
  restructN_spec n ps.length ps hd hw

/-! ### tiled tables -/

theorem Tiles.disj {n : Nat} {ps : List Part} (h : Tiles n ps) : Disj n ps := by
  refine ⟨h.1, fun b => ?_⟩
  by_cases hb : b < n
  · exact Nat.le_of_eq (h.2 b hb)
  · show cnt b ps ≤ 1
    have : cnt b ps = 0 := by
      unfold cnt
      rw [List.countP_eq_zero]
      intro p hp
      have := h.1 p hp
      unfold covers
      simp only [Bool.and_eq_true, decide_eq_true_eq, not_and, not_lt]
      intro _; omega
    omega

theorem tiles_of_disj_cnt {n : Nat} {ps : List Part} (h : Disj n ps) (hc : ∀ b, b < n → cnt b ps = 1) : Tiles n ps :=
  ⟨h.1, hc⟩

/-- a tiled table with the key `(0, n)` consists of that single part -/
theorem Tiles.whole_key {n : Nat} {ps : List Part} (h : Tiles n ps) {e : Expr} (hf : findKey 0 n ps = some e) :
    e.size = n := by
  have := h.1 _ (findKey_some_mem hf)
  simpa using this.2.2

/-- a tiled table with a single entry: the entry is the whole -/
theorem Tiles.single {n lo hi : Nat} {e : Expr} (hn : 0 < n) (h : Tiles n [(lo, hi, e)]) : e.size = n := by
  have hs := h.1 (lo, hi, e) List.mem_cons_self
  simp only at hs
  have h0 := h.2 0 hn
  have h1 := h.2 (n - 1) (by omega)
  change cnt 0 [(lo, hi, e)] = 1 at h0
  change cnt (n - 1) [(lo, hi, e)] = 1 at h1
  rw [cnt_single] at h0 h1
  unfold ind at h0 h1
  split_ifs at h0 h1 <;> omega

/-! ### the `__getitem__` loop -/

theorem cover_spec {b : Nat} {ps : List Part} {p : Part} (h : cover b ps = some p) :
    p ∈ ps ∧ p.1 ≤ b ∧ b < p.2.1 := by
  induction ps with
  | nil => simp [cover] at h
  | cons q tl ih =>
    obtain ⟨lo, hi, e⟩ := q
    simp only [cover] at h
    split at h
    · rename_i hc
      cases h
      simp only [Bool.and_eq_true, decide_eq_true_eq] at hc
      exact ⟨List.mem_cons_self, hc.1, hc.2⟩
    · obtain ⟨h1, h2⟩ := ih h
      exact ⟨List.mem_cons_of_mem _ h1, h2⟩

theorem cover_isSome_of_cnt {b : Nat} {ps : List Part} (h : 1 ≤ cnt b ps) : (cover b ps).isSome := by
  induction ps with
  | nil => simp [cnt] at h
  | cons q tl ih =>
    obtain ⟨lo, hi, e⟩ := q
    simp only [cover]
    split
    · rfl
    · rename_i hc
      rw [cnt_cons] at h
      have : ind lo hi b = 0 := by
        unfold ind
        simp only [Bool.and_eq_true, decide_eq_true_eq] at hc
        rw [if_neg hc]
      have h' : cnt b tl + ind lo hi b ≥ 1 := h
      exact ih (by omega)

/-- size specification of a `setitem`-like operation on a comp under construction -/
def SiSpec (si : Expr → Nat → Nat → Expr → R Expr) : Prop :=
  ∀ n sf ps a b v r, Disj n ps → (∀ p ∈ ps, WF p.2.2) → WF v → si (.comp n sf ps) a b v = .ok r →
    ∃ ps', r = .comp n sf ps' ∧ Disj n ps' ∧ (∀ p ∈ ps', WF p.2.2) ∧ a < b ∧ b ≤ n ∧
      ∀ x, cnt x ps' = if a ≤ x ∧ x < b then 1 else cnt x ps

theorem compGetLoop_spec (gi : Expr → Nat → Nat → R Expr) (si : Expr → Nat → Nat → Expr → R Expr)
    (hgi : GiSpec gi) (hsi : SiSpec si) (size : Nat) (parts : List Part) (ht : Tiles size parts)
    (hw : ∀ p ∈ parts, WF p.2.2) (stop l sta : Nat) (hstop : stop = sta + l) (hle : stop ≤ size) (sf : Bool) :
    ∀ (k b : Nat) (rps : List Part) (res : Expr), l - b ≤ k → b ≤ l → Disj l rps → (∀ p ∈ rps, WF p.2.2) →
      (∀ x, cnt x rps = if x < b then 1 else 0) →
      compGetLoop gi si parts stop l k b (sta + b) (.comp l sf rps) = .ok res →
      ∃ rps', res = .comp l sf rps' ∧ Tiles l rps' ∧ (∀ p ∈ rps', WF p.2.2) := by
  intro k
  induction k with
  | zero =>
    intro b rps res hk hb hd hwr hc h
    simp only [compGetLoop] at h
    cases h
    have : b = l := by omega
    subst this
    exact ⟨rps, rfl, ⟨hd.1, fun x hx => by show cnt x rps = 1; rw [hc x]; simp [hx]⟩, hwr⟩
  | succ k ih =>
    intro b rps res hk hb hd hwr hc h
    simp only [compGetLoop] at h
    split at h
    · cases h
      have : b = l := by omega
      subst this
      exact ⟨rps, rfl, ⟨hd.1, fun x hx => by show cnt x rps = 1; rw [hc x]; simp [hx]⟩, hwr⟩
    · rename_i hbl
      have hbl' : b < l := by omega
      have hcs : (cover (sta + b) parts).isSome := by
        apply cover_isSome_of_cnt
        have := ht.2 (sta + b) (by subst hstop; omega)
        show 1 ≤ cnt (sta + b) parts
        change cnt (sta + b) parts = 1 at this
        omega
      cases hcv : cover (sta + b) parts with
      | none => rw [hcv] at hcs; cases hcs
      | some p =>
        obtain ⟨lo, hi, s⟩ := p
        rw [hcv] at h
        simp only at h
        obtain ⟨hm, h1, h2⟩ := cover_spec hcv
        simp only at h1 h2
        have hs := ht.1 _ hm
        simp only at hs
        cases hg : gi s (sta + b - lo) (min hi stop - lo) with
        | error e => rw [hg] at h; cases h
        | ok piece =>
          rw [hg] at h
          simp only [bind, Except.bind] at h
          have hp := hgi s _ _ piece (hw _ hm) (by omega) (by omega) hg
          cases hsv : si (comp l sf rps) b (b + (min hi stop - lo - (sta + b - lo))) piece with
          | error e => rw [hsv] at h; cases h
          | ok res1 =>
            rw [hsv] at h
            simp only at h
            obtain ⟨rps1, rfl, hd1, hw1, hab, hbn, hc1⟩ := hsi l sf rps _ _ piece res1 hd hwr hp.1 hsv
            have e : sta + b + (min hi stop - lo - (sta + b - lo)) = sta + (b + (min hi stop - lo - (sta + b - lo))) := by
              omega
            rw [e] at h
            refine ih _ rps1 res (by omega) hbn hd1 hw1 ?_ h
            intro x
            rw [hc1 x, hc x]
            split_ifs <;> omega

end Amoco.Expr
