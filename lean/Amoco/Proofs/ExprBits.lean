/-
  Amoco.Proofs.ExprBits — bit-vector facts behind the rewrite rules of `cas/expressions.py`,
  for every width and every operand value (values are `Nat` with an explicit width).
-/
import Amoco.Model.Eval
import Mathlib.Tactic.Ring
import Mathlib.Tactic.Linarith

namespace Amoco.Bits

open Amoco.Expr

theorem two_pow_pos' (n : Nat) : 0 < 2 ^ n := Nat.two_pow_pos n

/-- bits `[p, p+s)` of `a` -/
def bitsOf (a p s : Nat) : Nat := (a >>> p) % 2 ^ s

theorem testBit_bitsOf (a p s j : Nat) : (bitsOf a p s).testBit j = (decide (j < s) && a.testBit (p + j)) := by
  unfold bitsOf
  rw [Nat.testBit_mod_two_pow, Nat.testBit_shiftRight]

theorem lt_two_pow_of_testBit (a w : Nat) (h : ∀ j, w ≤ j → a.testBit j = false) : a < 2 ^ w := by
  by_contra hc
  have hge : 2 ^ w ≤ a := Nat.le_of_not_lt hc
  obtain ⟨k, hk1, hk2⟩ := Nat.exists_ge_and_testBit_of_ge_two_pow hge
  rw [h k hk1] at hk2
  cases hk2

theorem testBit_of_lt (a w j : Nat) (h : a < 2 ^ w) (hj : w ≤ j) : a.testBit j = false := by
  apply Nat.testBit_lt_two_pow
  exact Nat.lt_of_lt_of_le h (Nat.pow_le_pow_right (by decide) hj)

/-! ### slices -/

/-- slice of a slice (`slc.__getitem__`, `slc.__init__` on a `slc`) -/
theorem slice_of_slice (a p s q t : Nat) (h : q + t ≤ s) : bitsOf (bitsOf a p s) q t = bitsOf a (p + q) t := by
  apply Nat.eq_of_testBit_eq
  intro j
  simp only [testBit_bitsOf]
  by_cases hj : j < t
  · have : q + j < s := by omega
    simp [hj, this, Nat.add_assoc]
  · simp [hj]

/-- a full-width slice is the value itself (`slicer` returns `x` for `pos = 0, size = x.size`) -/
theorem slice_whole (a w : Nat) (h : a < 2 ^ w) : bitsOf a 0 w = a := by
  unfold bitsOf
  simp [Nat.mod_eq_of_lt h]

/-- slicing a constant: `cst(v >> start, stop - start)` -/
theorem slice_cst (v start len : Nat) : ((v >>> start : Nat) % 2 ^ len) = bitsOf v start len := rfl

/-! ### mask → slice -/

/-- the mask with bits `[i1, i2]` set -/
def maskOf (i1 i2 : Nat) : Nat := (2 ^ (i2 + 1) - 1) ^^^ (2 ^ i1 - 1)

theorem testBit_two_pow_sub_one (n j : Nat) : (2 ^ n - 1).testBit j = decide (j < n) := by
  exact Nat.testBit_two_pow_sub_one n j

theorem testBit_maskOf (i1 i2 j : Nat) (h : i1 ≤ i2) : (maskOf i1 i2).testBit j = (decide (i1 ≤ j) && decide (j ≤ i2)) := by
  unfold maskOf
  rw [Nat.testBit_xor, testBit_two_pow_sub_one, testBit_two_pow_sub_one]
  by_cases h1 : j < i1 <;> by_cases h2 : j < i2 + 1 <;> simp [h1, h2] <;> omega

/-- `a & mask[i1..i2]` is the slice `a[i1:i2+1]` put back at position `i1` (rule *mask_to_slice*):
    `{ [0:i1]→0 | [i1:i2+1]→a[i1:i2+1] | [i2+1:w]→0 }` -/
theorem mask_to_slice (a i1 i2 : Nat) (h : i1 ≤ i2) :
    a &&& maskOf i1 i2 = (bitsOf a i1 (i2 + 1 - i1)) <<< i1 := by
  apply Nat.eq_of_testBit_eq
  intro j
  rw [Nat.testBit_and, testBit_maskOf _ _ _ h, Nat.testBit_shiftLeft, testBit_bitsOf]
  by_cases h1 : i1 ≤ j
  · by_cases h2 : j ≤ i2
    · have : j - i1 < i2 + 1 - i1 := by omega
      have e : i1 + (j - i1) = j := by omega
      simp [h1, h2, this, e]
    · have : ¬ (j - i1 < i2 + 1 - i1) := by omega
      simp [h1, h2, this]
  · simp [h1]

/-! ### shifts by a constant -/

/-- `a << n` on `w` bits is `{ [0:n]→0 | [n:w]→a[0:w-n] }` (rule *shl_to_comp*) -/
theorem shl_to_comp (a w n : Nat) (h : n ≤ w) : (a <<< n) % 2 ^ w = (bitsOf a 0 (w - n)) <<< n := by
  apply Nat.eq_of_testBit_eq
  intro j
  rw [Nat.testBit_mod_two_pow, Nat.testBit_shiftLeft, Nat.testBit_shiftLeft, testBit_bitsOf]
  by_cases h1 : n ≤ j
  · by_cases h2 : j < w
    · have : j - n < w - n := by omega
      simp [h1, h2, this]
    · have : ¬ (j - n < w - n) := by omega
      simp [h1, h2, this]
  · simp [h1]

/-- `a >> n` on `w` bits is `{ [0:w-n]→a[n:w] | [w-n:w]→0 }` (rule *shr_to_comp*) -/
theorem shr_to_comp (a w n : Nat) (ha : a < 2 ^ w) : a >>> n = bitsOf a n (w - n) := by
  apply Nat.eq_of_testBit_eq
  intro j
  rw [Nat.testBit_shiftRight, testBit_bitsOf]
  by_cases h2 : j < w - n
  · simp [h2]
  · have : a.testBit (n + j) = false := testBit_of_lt a w _ ha (by omega)
    simp [h2, this]

/-- shifting by the width or more gives 0 (logical shifts; the repaired rule `n >= size ⇒ cst(0)`) -/
theorem shr_ge_width (a w n : Nat) (ha : a < 2 ^ w) (h : w ≤ n) : a >>> n = 0 := by
  rw [Nat.shiftRight_eq_div_pow]
  apply Nat.div_eq_of_lt
  exact Nat.lt_of_lt_of_le ha (Nat.pow_le_pow_right (by decide) h)

theorem shl_ge_width (a w n : Nat) (h : w ≤ n) : (a <<< n) % 2 ^ w = 0 := by
  rw [Nat.shiftLeft_eq]
  have : 2 ^ n = 2 ^ w * 2 ^ (n - w) := by rw [← Nat.pow_add]; congr 1; omega
  rw [this, ← Nat.mul_assoc, Nat.mul_comm a, Nat.mul_assoc]
  exact Nat.mul_mod_right _ _

/-! ### composition -/

/-- the value of two adjacent parts: low part `a` of width `wa`, high part `b` -/
def cat (a wa b : Nat) : Nat := (b <<< wa) ||| a

theorem testBit_cat (a wa b j : Nat) (ha : a < 2 ^ wa) :
    (cat a wa b).testBit j = if j < wa then a.testBit j else b.testBit (j - wa) := by
  unfold cat
  rw [Nat.testBit_or, Nat.testBit_shiftLeft]
  by_cases h : j < wa
  · have : ¬ wa ≤ j := by omega
    simp [h, this]
  · have h' : wa ≤ j := by omega
    simp [h, h', testBit_of_lt a wa j ha h']

/-- merging two adjacent constant parts (`restruct`): `cst((nb.v << na.size) | na.v, na.size + nb.size)` has the
    two constants as its slices -/
theorem cat_low (a wa b : Nat) (ha : a < 2 ^ wa) : bitsOf (cat a wa b) 0 wa = a := by
  apply Nat.eq_of_testBit_eq
  intro j
  rw [testBit_bitsOf, Nat.zero_add, testBit_cat _ _ _ _ ha]
  by_cases h : j < wa
  · simp [h]
  · simp [h, testBit_of_lt a wa j ha (by omega)]

theorem cat_high (a wa b wb : Nat) (ha : a < 2 ^ wa) (hb : b < 2 ^ wb) : bitsOf (cat a wa b) wa wb = b := by
  apply Nat.eq_of_testBit_eq
  intro j
  rw [testBit_bitsOf, testBit_cat _ _ _ _ ha]
  by_cases h : j < wb
  · have : ¬ (wa + j < wa) := by omega
    simp [h, this]
  · simp [h, testBit_of_lt b wb j hb (by omega)]

theorem cat_lt (a wa b wb : Nat) (ha : a < 2 ^ wa) (hb : b < 2 ^ wb) : cat a wa b < 2 ^ (wa + wb) := by
  apply lt_two_pow_of_testBit
  intro j hj
  rw [testBit_cat _ _ _ _ ha]
  have : ¬ j < wa := by omega
  simp [this, testBit_of_lt b wb (j - wa) hb (by omega)]

/-- slice of a composition that lies inside the low part / the high part (`comp.__getitem__`) -/
theorem slice_cat_low (a wa b p s : Nat) (ha : a < 2 ^ wa) (h : p + s ≤ wa) :
    bitsOf (cat a wa b) p s = bitsOf a p s := by
  apply Nat.eq_of_testBit_eq
  intro j
  rw [testBit_bitsOf, testBit_bitsOf, testBit_cat _ _ _ _ ha]
  by_cases hj : j < s
  · have : p + j < wa := by omega
    simp [hj, this]
  · simp [hj]

theorem slice_cat_high (a wa b p s : Nat) (ha : a < 2 ^ wa) (h : wa ≤ p) :
    bitsOf (cat a wa b) p s = bitsOf b (p - wa) s := by
  apply Nat.eq_of_testBit_eq
  intro j
  rw [testBit_bitsOf, testBit_bitsOf, testBit_cat _ _ _ _ ha]
  have : ¬ (p + j < wa) := by omega
  have e : p + j - wa = p - wa + j := by omega
  simp [this, e]

/-- every value is the composition of its two halves at any cut (`comp.cut` splits a part in two) -/
theorem cat_split (a k : Nat) : cat (bitsOf a 0 k) k (a >>> k) = a := by
  apply Nat.eq_of_testBit_eq
  intro j
  have hlt : bitsOf a 0 k < 2 ^ k := by unfold bitsOf; exact Nat.mod_lt _ (two_pow_pos' k)
  rw [testBit_cat _ _ _ _ hlt, testBit_bitsOf, Nat.testBit_shiftRight]
  by_cases h : j < k
  · simp [h]
  · have : k + (j - k) = j := by omega
    simp [h, this]

/-! ### extensions -/

/-- zero extension keeps the value: `{ [0:w]→a | [w:n]→0 }` -/
theorem zext_value (a w : Nat) : cat a w 0 = a := by
  unfold cat; simp

theorem cat_eq_add (a w b : Nat) (ha : a < 2 ^ w) : cat a w b = 2 ^ w * b + a := by
  unfold cat
  rw [Nat.shiftLeft_eq, Nat.mul_comm]
  exact (Nat.two_pow_add_eq_or_of_lt ha b).symm

/-- sign extension: `{ [0:w]→a | [w:n]→(a[w-1] ? -1 : 0) }` is the two's complement of the signed reading -/
theorem sext_value (a w xt : Nat) (ha : a < 2 ^ w) :
    cat a w (if a.testBit (w - 1) then 2 ^ xt - 1 else 0) = wrap (w + xt) (toInt w a) := by
  unfold wrap toInt
  have hp : (0 : Int) < ((2 ^ w : Nat) : Int) := by exact_mod_cast two_pow_pos' w
  have hxt : 1 ≤ 2 ^ xt := two_pow_pos' xt
  have hpow : 2 ^ (w + xt) = 2 ^ w * 2 ^ xt := Nat.pow_add 2 w xt
  by_cases hb : a.testBit (w - 1)
  · simp only [hb, if_true]
    rw [cat_eq_add _ _ _ ha]
    have e : ((a : Int) - ((2 ^ w : Nat) : Int)) % ((2 ^ (w + xt) : Nat) : Int)
           = (a : Int) - ((2 ^ w : Nat) : Int) + ((2 ^ (w + xt) : Nat) : Int) := by
      rw [← Int.add_emod_right]
      apply Int.emod_eq_of_lt
      · have : (2 ^ w : Nat) ≤ 2 ^ (w + xt) := Nat.pow_le_pow_right (by decide) (by omega)
        have : ((2 ^ w : Nat) : Int) ≤ ((2 ^ (w + xt) : Nat) : Int) := by exact_mod_cast this
        omega
      · have : (a : Int) < ((2 ^ w : Nat) : Int) := by exact_mod_cast ha
        omega
    rw [e]
    have : (2 ^ w * (2 ^ xt - 1) + a : Nat) = 2 ^ (w + xt) - 2 ^ w + a := by
      rw [Nat.mul_sub, Nat.mul_one, hpow]
    rw [this]
    have hle : 2 ^ w ≤ 2 ^ (w + xt) := Nat.pow_le_pow_right (by decide) (by omega)
    omega
  · simp only [hb]
    have hz : cat a w (if false = true then 2 ^ xt - 1 else 0) = a := by
      simp only [Bool.false_eq_true, if_false]; exact zext_value a w
    rw [hz]
    have : (a : Int) % ((2 ^ (w + xt) : Nat) : Int) = a := by
      apply Int.emod_eq_of_lt (by omega)
      have : a < 2 ^ (w + xt) := Nat.lt_of_lt_of_le ha (Nat.pow_le_pow_right (by decide) (by omega))
      exact_mod_cast this
    simp only [Bool.false_eq_true, if_false]
    rw [this]; rfl

end Amoco.Bits
