/-
  Amoco.Proofs.Mapper.Compose — `rcompose` (`m1 >> m2`): evaluation of arbitrary map values (loads with
  their mods included) in a map, and the composition law.
-/
import Amoco.Proofs.Mapper.Exec

set_option linter.unusedSimpArgs false
set_option linter.unusedVariables false

namespace Amoco.Mapper

variable {c : Ctx}

/-! ### the value of an expression depends on registers modulo their width and on memory pointwise -/

mutual
theorem ideal_congr (sem : OpSem) (σ1 σ2 : St) (hr : ∀ n s, σ1.reg n s % 2 ^ s = σ2.reg n s % 2 ^ s)
    (hm : ∀ x, σ1.mem x = σ2.mem x) : ∀ e : E, ideal sem σ1 e = ideal sem σ2 e
  | .cst _ _ => rfl
  | .reg n s => hr n s
  | .slc x p s => by simp only [ideal, ideal_congr sem σ1 σ2 hr hm x]
  | .cat lo hi => by simp only [ideal, ideal_congr sem σ1 σ2 hr hm lo, ideal_congr sem σ1 σ2 hr hm hi]
  | .addc x k => by simp only [ideal, ideal_congr sem σ1 σ2 hr hm x]
  | .op o l r s => by simp only [ideal, ideal_congr sem σ1 σ2 hr hm l, ideal_congr sem σ1 σ2 hr hm r]
  | .load b d s be ms => by
    simp only [ideal, ideal_congr sem σ1 σ2 hr hm b]
    apply readN_congr
    intro k _
    rw [replayMods_congr sem σ1 σ2 hr hm ms σ1.mem σ2.mem hm]
theorem replayMods_congr (sem : OpSem) (σ1 σ2 : St) (hr : ∀ n s, σ1.reg n s % 2 ^ s = σ2.reg n s % 2 ^ s)
    (hm : ∀ x, σ1.mem x = σ2.mem x) : ∀ (ms : Mods) (μ1 μ2 : Int → Nat), (∀ x, μ1 x = μ2 x) →
      ∀ x, replayMods sem σ1 μ1 ms x = replayMods sem σ2 μ2 ms x
  | .nil, μ1, μ2, h, x => h x
  | .cons b d v be rest, μ1, μ2, h, x => by
    simp only [replayMods]
    apply replayMods_congr sem σ1 σ2 hr hm rest
    intro y
    rw [ideal_congr sem σ1 σ2 hr hm b, ideal_congr sem σ1 σ2 hr hm v]
    unfold writeN
    split
    · rfl
    · exact h y
end

theorem agrees_refl (σ : St) : σ.agrees σ := ⟨fun _ _ => rfl, fun _ => rfl⟩

theorem agrees_trans {σ1 σ2 σ3 : St} (h1 : σ1.agrees σ2) (h2 : σ2.agrees σ3) : σ1.agrees σ3 :=
  ⟨fun n s => (h1.1 n s).trans (h2.1 n s), fun x => (h1.2 x).trans (h2.2 x)⟩

theorem agrees_symm {σ1 σ2 : St} (h : σ1.agrees σ2) : σ2.agrees σ1 :=
  ⟨fun n s => (h.1 n s).symm, fun x => (h.2 x).symm⟩

theorem replayEntries_congr (sem : OpSem) (σ1 σ2 : St) (h : σ1.agrees σ2) :
    ∀ (es : List Entry) (μ1 μ2 : Int → Nat), (∀ x, μ1 x = μ2 x) →
      ∀ x, replayEntries sem σ1 μ1 es x = replayEntries sem σ2 μ2 es x
  | [], _, _, hμ, x => hμ x
  | e :: rest, μ1, μ2, hμ, x => by
    unfold replayEntries
    cases hl : e.loc with
    | reg n s => exact replayEntries_congr sem σ1 σ2 h rest μ1 μ2 hμ x
    | ptr b d =>
      simp only
      apply replayEntries_congr sem σ1 σ2 h rest
      intro y
      rw [ideal_congr sem σ1 σ2 h.1 h.2 b, ideal_congr sem σ1 σ2 h.1 h.2 e.val]
      unfold writeN
      split
      · rfl
      · exact hμ y

/-- applying a map to states that agree gives states that agree -/
theorem applyMap_congr (sem : OpSem) (σ1 σ2 : St) (h : σ1.agrees σ2) (m : MapSt) :
    (applyMap sem σ1 m).agrees (applyMap sem σ2 m) := by
  constructor
  · intro n s
    simp only [applyMap]
    rw [ideal_congr sem σ1 σ2 h.1 h.2]
  · intro x
    simp only [applyMap]
    exact replayEntries_congr sem σ1 σ2 h m.entries _ _ h.2 x

/-! ### evaluation of arbitrary expressions in a touched map -/

def MapSt.untouched (m : MapSt) : Bool := m.entries.isEmpty && m.memEmpty

mutual
/-- **general substitution lemma**: any well-formed expression (loads with mods included) evaluated in a
    touched map that stands for a state has, in the initial state, the value it has in that state. -/
theorem Inv.evalE_sound {μt ρt} {m : MapSt} (h : Inv c μt ρt m) (ok : c.OK) (hne : m.untouched = false) :
    ∀ (e : E), e.ok c.be0 = true → (∀ a ∈ loadsOf c.cfg m e, a ∈ c.acc) →
      ideal c.sem c.σ (eval c.cfg m e) = ideal c.sem ⟨ρt, μt⟩ e ∧ (eval c.cfg m e).size = e.size
  | .cst v s, _, _ => ⟨rfl, rfl⟩
  | .reg n s, _, _ => by
    simp only [eval, ideal, E.size]
    exact ⟨h.regs n s, h.s.R_size n s⟩
  | .slc x p s, hok, hacc => by
    obtain ⟨ih1, _⟩ := Inv.evalE_sound h ok hne x (by simpa [E.ok] using hok) (by simpa [loadsOf] using hacc)
    simp only [eval, ideal, E.size, ideal_mkSlice, size_mkSlice, ih1, and_self]
  | .cat lo hi, hok, hacc => by
    simp only [E.ok, Bool.and_eq_true] at hok
    simp only [loadsOf, List.mem_append] at hacc
    obtain ⟨l1, l2⟩ := Inv.evalE_sound h ok hne lo hok.1 (fun a ha => hacc a (Or.inl ha))
    obtain ⟨r1, r2⟩ := Inv.evalE_sound h ok hne hi hok.2 (fun a ha => hacc a (Or.inr ha))
    simp only [eval, ideal, E.size, ideal_mkCat, size_mkCat, l2, r2, and_true]
    rw [l1, r1, ideal_mod, ideal_mod]
  | .addc x k, hok, hacc => by
    obtain ⟨ih1, ih2⟩ := Inv.evalE_sound h ok hne x (by simpa [E.ok] using hok) (by simpa [loadsOf] using hacc)
    simp only [eval, ideal, E.size, ideal_mkAddc, size_mkAddc, ih1, ih2, and_self]
  | .op o l r s, hok, hacc => by
    simp only [E.ok, Bool.and_eq_true] at hok
    simp only [loadsOf, List.mem_append] at hacc
    obtain ⟨l1, _⟩ := Inv.evalE_sound h ok hne l hok.1 (fun a ha => hacc a (Or.inl ha))
    obtain ⟨r1, _⟩ := Inv.evalE_sound h ok hne r hok.2 (fun a ha => hacc a (Or.inr ha))
    simp only [eval, ideal, E.size, l1, r1, and_self]
  | .load b d s be ms, hok, hacc => by
    simp only [E.ok, Bool.and_eq_true, decide_eq_true_eq, beq_iff_eq] at hok
    obtain ⟨⟨⟨⟨hob, hs0⟩, hs8⟩, hbe⟩, hom⟩ := hok
    subst hbe
    simp only [loadsOf, List.mem_append, List.mem_singleton] at hacc
    obtain ⟨b1, b2⟩ := Inv.evalE_sound h ok hne b hob (fun a ha => hacc a (Or.inl (Or.inl ha)))
    have hunt : (m.entries.isEmpty && m.memEmpty) = false := hne
    have hmods := Inv.evalMods_sound h ok hne ms hom (fun a ha => hacc a (Or.inl (Or.inr ha)))
      (m.rebuild c.cfg) μt (h.rebuild ok)
    have hin := hacc ⟨(mkPtr (eval c.cfg m b) d).1, (mkPtr (eval c.cfg m b) d).2, s / 8⟩ (Or.inr rfl)
    conv => lhs; unfold eval
    conv => rhs; lhs; unfold eval
    simp only [hunt, Bool.false_eq_true, if_false]
    obtain ⟨m1, m2⟩ := hmods.M_sound ok _ _ s hs0 hs8 (ok.nowrap _ hin) (by
      intro hna e he b' d' hl
      exact ok.apart hna _ (hmods.s.pent e he b' d' hl).2.2.2 _ hin)
    refine ⟨?_, m2⟩
    rw [m1]
    simp only [ideal, E.size]
    unfold locAddr
    rw [addrOf_mkPtr, b1, b2]
/-- the mods of a load, evaluated in `m` and folded into any map `m''` that stands for `(ρt, μ)` -/
theorem Inv.evalMods_sound {μt ρt} {m : MapSt} (h : Inv c μt ρt m) (ok : c.OK) (hne : m.untouched = false) :
    ∀ (ms : Mods), ms.ok c.be0 = true → (∀ a ∈ loadsOfMods c.cfg m ms, a ∈ c.acc) →
      ∀ (m'' : MapSt) (μ : Int → Nat), Inv c μ ρt m'' →
        Inv c (replayMods c.sem ⟨ρt, μt⟩ μ ms) ρt
          ((evalMods c.cfg m ms).foldl (fun acc w => acc.setPtr c.cfg w.1 w.2.1 w.2.2.1 w.2.2.2) m'')
  | .nil, _, _, m'', μ, h'' => by simpa [evalMods, replayMods] using h''
  | .cons b d v be rest, hok, hacc, m'', μ, h'' => by
    simp only [Mods.ok, Bool.and_eq_true, decide_eq_true_eq, beq_iff_eq] at hok
    obtain ⟨⟨⟨⟨⟨hob, hov⟩, hv0⟩, hv8⟩, hbe⟩, hor⟩ := hok
    have hunt : (m.entries.isEmpty && m.memEmpty) = false := hne
    simp only [loadsOfMods, hunt, Bool.false_eq_true, if_false, List.mem_append, List.mem_singleton] at hacc
    obtain ⟨b1, b2⟩ := Inv.evalE_sound h ok hne b hob (fun a ha => hacc a (Or.inl (Or.inl (Or.inl ha))))
    obtain ⟨v1, v2⟩ := Inv.evalE_sound h ok hne v hov (fun a ha => hacc a (Or.inl (Or.inl (Or.inr ha))))
    have hin := hacc ⟨(mkPtr (eval c.cfg m b) d).1, (mkPtr (eval c.cfg m b) d).2, v.size / 8⟩
      (Or.inl (Or.inr rfl))
    have hnb : nbytes (eval c.cfg m v) = v.size / 8 := by unfold nbytes; rw [v2]
    have hstep := h''.setPtr ok (mkPtr (eval c.cfg m b) d).1 (mkPtr (eval c.cfg m b) d).2 (eval c.cfg m v)
      (by rw [hnb]; exact hv0) (by rw [hnb, v2]; exact hv8) (by rw [hnb]; exact hin)
    rw [hnb, v1] at hstep
    unfold locAddr at hstep
    rw [addrOf_mkPtr, b1, b2] at hstep
    simp only [evalMods, List.foldl_cons, replayMods]
    rw [hbe]
    exact Inv.evalMods_sound h ok hne rest hor (fun a ha => hacc a (Or.inr ha)) _ _ hstep
end

/-! ### `rcompose` -/

/-- the concrete effect of one item of the second map, its pointer and value taken in the state `σ1` -/
def stepState (sem : OpSem) (σ1 : St) (s : St) (e : Entry) : St :=
  match e.loc with
  | .ptr b d =>
    { s with mem := writeN s.mem (addrOf b.size (ideal sem σ1 b) d) (e.val.size / 8) (ideal sem σ1 e.val) e.be }
  | .reg n sz => s.setReg n sz (spliceVal (s.reg n sz) sz 0 sz (ideal sem σ1 e.val))

/-- one step of the loop of `rcompose` -/
def rcStep (cfg : Cfg) (m1 : MapSt) (acc : MapSt) (e : Entry) : MapSt :=
  match e.loc with
  | .ptr b d =>
    let a := if m1.entries.isEmpty && m1.memEmpty then (b, d) else mkPtr (eval cfg m1 b) d
    acc.setPtr cfg a.1 a.2 (m1.call cfg e.val) e.be
  | .reg n s => acc.setReg n s 0 s (m1.call cfg e.val)

theorem rcompose_eq (cfg : Cfg) (m2 m1 : MapSt) :
    rcompose cfg m2 m1 = m2.entries.foldl (rcStep cfg m1) (m1.rebuild cfg) := rfl

/-- what `MapSt.ok` says about one item -/
def Entry.ok (be0 : Bool) (e : Entry) : Prop :=
  e.val.ok be0 = true ∧
  (∀ n s, e.loc = .reg n s → e.val.size = s) ∧
  (∀ b d, e.loc = .ptr b d → b.ok be0 = true ∧ 0 < e.val.size / 8 ∧ 8 * (e.val.size / 8) = e.val.size ∧ e.be = be0)

def entryAccesses (cfg : Cfg) (m1 : MapSt) (e : Entry) : List Access :=
  match e.loc with
  | .ptr b d =>
    let a := if m1.entries.isEmpty && m1.memEmpty then (b, d) else mkPtr (eval cfg m1 b) d
    loadsOf cfg m1 b ++ loadsOf cfg m1 e.val ++ [⟨a.1, a.2, e.val.size / 8⟩]
  | .reg _ _ => loadsOf cfg m1 e.val

/-- a value of the second map taken through `m1(·)` -/
theorem Inv.callE_sound {μ1 ρ1} {m1 : MapSt} (h1 : Inv c μ1 ρ1 m1) (ok : c.OK) (e : E) (hok : e.ok c.be0 = true)
    (hacc : ∀ a ∈ loadsOf c.cfg m1 e, a ∈ c.acc) :
    ideal c.sem c.σ (m1.call c.cfg e) = ideal c.sem ⟨ρ1, μ1⟩ e ∧ (m1.call c.cfg e).size = e.size := by
  unfold MapSt.call
  split
  · rename_i hs
    simp only [Bool.and_eq_true, List.isEmpty_iff] at hs
    obtain ⟨e1, e2⟩ := h1.empty_state hs.1
    refine ⟨?_, (foldE_spec c.sem c.σ e).2⟩
    rw [(foldE_spec c.sem c.σ e).1]
    exact ideal_congr _ _ _ (fun n s => (e1 n s).symm) (fun x => (e2 x).symm) e
  · rename_i hs
    exact h1.evalE_sound ok (by simpa [MapSt.untouched] using hs) e hok hacc

theorem Inv.rc_step {μ1 ρ1 μ ρ} {m1 acc : MapSt} (h1 : Inv c μ1 ρ1 m1) (ok : c.OK) (h : Inv c μ ρ acc) (e : Entry)
    (he : e.ok c.be0) (hacc : ∀ a ∈ entryAccesses c.cfg m1 e, a ∈ c.acc) :
    Inv c (stepState c.sem ⟨ρ1, μ1⟩ ⟨ρ, μ⟩ e).mem (stepState c.sem ⟨ρ1, μ1⟩ ⟨ρ, μ⟩ e).reg (rcStep c.cfg m1 acc e) := by
  obtain ⟨hv, hreg, hptr⟩ := he
  unfold rcStep stepState entryAccesses at *
  cases hl : e.loc with
  | reg n s =>
    rw [hl] at hacc
    simp only at hacc ⊢
    obtain ⟨v1, v2⟩ := h1.callE_sound ok e.val hv hacc
    have := h.setReg n s 0 s (m1.call c.cfg e.val) (by rw [v2]; exact hreg n s hl) (by omega)
    rw [v1] at this
    exact this
  | ptr b d =>
    rw [hl] at hacc
    simp only [List.mem_append, List.mem_singleton] at hacc
    simp only
    obtain ⟨hob, hn0, hn8, hbe⟩ := hptr b d hl
    obtain ⟨v1, v2⟩ := h1.callE_sound ok e.val hv (fun a ha => hacc a (Or.inl (Or.inr ha)))
    have hnb : nbytes (m1.call c.cfg e.val) = e.val.size / 8 := by unfold nbytes; rw [v2]
    by_cases hs : (m1.entries.isEmpty && m1.memEmpty) = true
    · -- untouched first map: pointers and values are taken as they are
      simp only [hs, if_true] at hacc ⊢
      have hin := hacc ⟨b, d, e.val.size / 8⟩ (Or.inr rfl)
      have hs' := hs
      simp only [Bool.and_eq_true, List.isEmpty_iff] at hs'
      obtain ⟨e1, e2⟩ := h1.empty_state hs'.1
      have hb : ideal c.sem c.σ b = ideal c.sem ⟨ρ1, μ1⟩ b :=
        ideal_congr _ _ _ (fun n s => (e1 n s).symm) (fun x => (e2 x).symm) b
      have := h.setPtr ok b d (m1.call c.cfg e.val) (by rw [hnb]; exact hn0) (by rw [hnb, v2]; exact hn8)
        (by rw [hnb]; exact hin)
      rw [hnb, v1] at this
      unfold locAddr at this
      rw [hb, ← hbe] at this
      exact this
    · have hs0 : (m1.entries.isEmpty && m1.memEmpty) = false := by
        cases hx : (m1.entries.isEmpty && m1.memEmpty) <;> simp_all
      simp only [hs0, Bool.false_eq_true, if_false] at hacc ⊢
      have hin := hacc ⟨(mkPtr (eval c.cfg m1 b) d).1, (mkPtr (eval c.cfg m1 b) d).2, e.val.size / 8⟩ (Or.inr rfl)
      obtain ⟨b1, b2⟩ := h1.evalE_sound ok hs0 b hob (fun a ha => hacc a (Or.inl (Or.inl ha)))
      have := h.setPtr ok (mkPtr (eval c.cfg m1 b) d).1 (mkPtr (eval c.cfg m1 b) d).2 (m1.call c.cfg e.val)
        (by rw [hnb]; exact hn0) (by rw [hnb, v2]; exact hn8) (by rw [hnb]; exact hin)
      rw [hnb, v1] at this
      unfold locAddr at this
      rw [addrOf_mkPtr, b1, b2, ← hbe] at this
      exact this

theorem Inv.rc_fold {μ1 ρ1} {m1 : MapSt} (h1 : Inv c μ1 ρ1 m1) (ok : c.OK) :
    ∀ (es : List Entry) (acc : MapSt) (s : St), Inv c s.mem s.reg acc → (∀ e ∈ es, e.ok c.be0) →
      (∀ e ∈ es, ∀ a ∈ entryAccesses c.cfg m1 e, a ∈ c.acc) →
      Inv c (es.foldl (stepState c.sem ⟨ρ1, μ1⟩) s).mem (es.foldl (stepState c.sem ⟨ρ1, μ1⟩) s).reg
        (es.foldl (rcStep c.cfg m1) acc)
  | [], _, _, h, _, _ => h
  | e :: rest, acc, s, h, hok, hacc => by
    have hstep := h1.rc_step ok h e (hok e List.mem_cons_self) (hacc e List.mem_cons_self)
    exact Inv.rc_fold h1 ok rest _ _ hstep (fun e' he' => hok e' (List.mem_cons_of_mem _ he'))
      (fun e' he' => hacc e' (List.mem_cons_of_mem _ he'))

/-! ### the folded state is the second map applied to the state of the first -/

theorem foldl_stepState_mem (sem : OpSem) (σ1 : St) : ∀ (es : List Entry) (s : St),
    (es.foldl (stepState sem σ1) s).mem = replayEntries sem σ1 s.mem es
  | [], s => rfl
  | e :: rest, s => by
    rw [List.foldl_cons, foldl_stepState_mem sem σ1 rest]
    conv => rhs; unfold replayEntries
    unfold stepState
    cases hl : e.loc <;> simp [St.setReg]

theorem spliceVal_full (old sz v : Nat) : spliceVal old sz 0 sz v = v % 2 ^ sz := by
  unfold spliceVal
  have : (old % 2 ^ sz) >>> sz = 0 := by
    rw [Nat.shiftRight_eq_div_pow]
    exact Nat.div_eq_of_lt (Nat.mod_lt _ (Nat.two_pow_pos _))
  simp [this, Nat.mod_one]

theorem foldl_stepState_reg (sem : OpSem) (σ1 : St) (n : String) (sz : Nat) : ∀ (es : List Entry) (s : St),
    (es.map Entry.loc).Nodup →
    (es.foldl (stepState sem σ1) s).reg n sz % 2 ^ sz =
      match es.find? (fun e => e.loc = .reg n sz) with
      | some e => ideal sem σ1 e.val % 2 ^ sz
      | none => s.reg n sz % 2 ^ sz
  | [], s, _ => rfl
  | e :: rest, s, hnd => by
    rw [List.map_cons, List.nodup_cons] at hnd
    rw [List.foldl_cons, foldl_stepState_reg sem σ1 n sz rest _ hnd.2, List.find?_cons]
    by_cases hl : e.loc = .reg n sz
    · have hnone : rest.find? (fun e => decide (e.loc = .reg n sz)) = none := by
        rw [List.find?_eq_none]
        intro x hx hd
        apply hnd.1
        rw [hl]
        exact List.mem_map.mpr ⟨x, hx, of_decide_eq_true hd⟩
      simp only [hl, decide_true, hnone]
      unfold stepState
      rw [hl]
      simp only [St.setReg, and_self, if_true, spliceVal_full, Nat.mod_mod]
    · simp only [hl, decide_false]
      cases hf : rest.find? (fun e => decide (e.loc = .reg n sz)) with
      | some e' => rfl
      | none =>
        simp only
        unfold stepState
        cases hl' : e.loc with
        | ptr b d => rfl
        | reg n' s' =>
          simp only [St.setReg]
          have : ¬ (n = n' ∧ sz = s') := by
            intro hc; apply hl; rw [hl', hc.1, hc.2]
          rw [if_neg this]

theorem MapSt.ok_spec (be0 : Bool) (m : MapSt) (h : m.ok be0 = true) :
    (m.entries.map Entry.loc).Nodup ∧ ∀ e ∈ m.entries, e.ok be0 := by
  simp only [MapSt.ok, Bool.and_eq_true, decide_eq_true_eq, List.all_eq_true] at h
  refine ⟨h.1, ?_⟩
  intro e he
  have := h.2 e he
  refine ⟨this.1, ?_, ?_⟩
  · intro n s hl
    rw [hl] at this
    simpa using this.2
  · intro b d hl
    rw [hl] at this
    simp only [Bool.and_eq_true, decide_eq_true_eq, beq_iff_eq] at this
    exact ⟨this.2.1.1.1, this.2.1.1.2, this.2.1.2, this.2.2⟩

theorem rcomposeAccesses_mem (cfg : Cfg) (m2 m1 : MapSt) (e : Entry) (he : e ∈ m2.entries) (a : Access)
    (ha : a ∈ entryAccesses cfg m1 e) : a ∈ rcomposeAccesses cfg m2 m1 := by
  unfold rcomposeAccesses
  rw [List.mem_flatMap]
  refine ⟨e, he, ?_⟩
  unfold entryAccesses at ha
  cases hl : e.loc with
  | ptr b d => rw [hl] at ha; exact ha
  | reg n s => rw [hl] at ha; exact ha

/-- **composition**: `σ >> (m1 >> m2)` is `m2` applied to the state `m1` stands for. -/
theorem rcompose_sound (ok : c.OK) {μ1 ρ1} {m1 : MapSt} (h1 : Inv c μ1 ρ1 m1) (m2 : MapSt)
    (hm2 : m2.ok c.be0 = true) (hacc : ∀ a ∈ rcomposeAccesses c.cfg m2 m1, a ∈ c.acc) :
    (applyMap c.sem c.σ (rcompose c.cfg m2 m1)).agrees (applyMap c.sem ⟨ρ1, μ1⟩ m2) := by
  obtain ⟨hnd, hoks⟩ := MapSt.ok_spec _ _ hm2
  have hfold := h1.rc_fold ok m2.entries (m1.rebuild c.cfg) ⟨ρ1, μ1⟩ (h1.rebuild ok) hoks
    (fun e he a ha => hacc a (rcomposeAccesses_mem _ _ _ e he a ha))
  rw [← rcompose_eq] at hfold
  refine agrees_trans (agrees_of_inv' hfold) ?_
  constructor
  · intro n s
    rw [foldl_stepState_reg c.sem ⟨ρ1, μ1⟩ n s m2.entries ⟨ρ1, μ1⟩ hnd]
    simp only [applyMap]
    unfold MapSt.R MapSt.lookup
    cases hf : m2.entries.find? (fun e => decide (e.loc = .reg n s)) with
    | none => simp only [ideal, Nat.mod_mod]
    | some e =>
      simp only
  · intro x
    rw [foldl_stepState_mem]
    rfl
where
  agrees_of_inv' {μt ρt} {m : MapSt} (h : Inv c μt ρt m) : (applyMap c.sem c.σ m).agrees ⟨ρt, μt⟩ :=
    ⟨fun n s => by simp only [applyMap]; rw [h.regs n s, Nat.mod_mod], fun x => h.mem x⟩

end Amoco.Mapper
