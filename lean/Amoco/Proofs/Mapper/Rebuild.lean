/-
  Amoco.Proofs.Mapper.Rebuild — `use()` (`eval(mapper())`): writing every item again, in order, on a copy of
  the memory yields a map with the same items and the same bytes; the invariant carries over.
-/
import Amoco.Proofs.Mapper.Store

set_option linter.unusedSimpArgs false
set_option linter.unusedVariables false

namespace Amoco.Mapper

variable {c : Ctx}

/-- one step of the rebuild loop -/
def rebuildStep (cfg : Cfg) (acc : MapSt) (e : Entry) : MapSt :=
  match e.loc with
  | .ptr b d => acc.setPtr cfg b d e.val e.be
  | .reg n s => acc.setReg n s 0 s e.val

theorem rebuild_eq (cfg : Cfg) (m : MapSt) :
    m.rebuild cfg = m.entries.foldl (rebuildStep cfg)
      { entries := [], lastw := 0, zones := copyZones m.zones, tbl := m.tbl } := rfl

theorem filter_ne_of_not_mem (es : List Entry) (l : Loc) (h : ∀ e ∈ es, e.loc ≠ l) :
    es.filter (fun e => e.loc != l) = es := by
  rw [List.filter_eq_self]
  intro e he
  simpa using h e he

theorem rebuildStep_spec {bg} {acc : MapSt} (h : SInv c bg acc) (ok : c.OK) (e : Entry)
    (hfresh : ∀ e' ∈ acc.entries, e'.loc ≠ e.loc)
    (hreg : ∀ n s, e.loc = .reg n s → e.val.size = s ∧ e.be = false)
    (hptr : ∀ b d, e.loc = .ptr b d →
      e.be = c.be0 ∧ 0 < nbytes e.val ∧ 8 * nbytes e.val = e.val.size ∧ (⟨b, d, nbytes e.val⟩ : Access) ∈ c.acc) :
    SInv c bg (rebuildStep c.cfg acc e) ∧ (rebuildStep c.cfg acc e).entries = acc.entries ++ [e] := by
  unfold rebuildStep
  cases hl : e.loc with
  | ptr b d =>
    simp only
    obtain ⟨hbe, h0, h8, hacc⟩ := hptr b d hl
    have hlk : acc.lookup (.ptr b d) = none := by
      unfold MapSt.lookup
      rw [List.find?_eq_none]
      intro e' he'
      have := hfresh e' he'
      rw [hl] at this
      simpa using this
    have hval : setPtrVal c.cfg acc b d e.val e.be = e.val := by
      unfold setPtrVal; rw [hlk]
    rw [setPtr_eq _ _ _ _ _ _ ok.recs, hval, hbe]
    refine ⟨h.putPtr b d e.val h0 h8 hacc ?_, ?_⟩
    · intro e' he' hl'
      have := hfresh e' he'
      rw [hl] at this
      exact absurd hl' this
    · have hent : (acc.putPtr b d e.val c.be0).entries =
          acc.entries.filter (fun e => e.loc != .ptr b d) ++ [⟨.ptr b d, e.val, c.be0⟩] := rfl
      rw [hent, filter_ne_of_not_mem _ _ (by intro e' he'; have := hfresh e' he'; rwa [hl] at this)]
      congr 2
      cases e with
      | mk loc val be => simp only at hl hbe; subst hl hbe; rfl
  | reg n s =>
    simp only
    obtain ⟨hsz, hbe⟩ := hreg n s hl
    refine ⟨h.setReg n s 0 s e.val hsz (by omega), ?_⟩
    simp only [MapSt.setReg]
    unfold setEntry
    have hany : ¬ (acc.entries.any (fun e' => e'.loc = .reg n s)) = true := by
      intro ha
      obtain ⟨e', he', hl'⟩ := List.any_eq_true.mp ha
      have := hfresh e' he'
      rw [hl] at this
      exact this (of_decide_eq_true hl')
    rw [if_neg hany]
    congr 2
    have : splice (acc.R n s) s 0 s e.val = e.val := by
      unfold splice; rw [if_pos ⟨rfl, rfl⟩]
    rw [this]
    cases e with
    | mk loc val be => simp only at hl hbe; subst hl hbe; rfl

theorem rebuild_fold {bg} (ok : c.OK) : ∀ (es : List Entry) (acc : MapSt), SInv c bg acc →
    ((acc.entries ++ es).map Entry.loc).Nodup →
    (∀ e ∈ es, ∀ n s, e.loc = .reg n s → e.val.size = s ∧ e.be = false) →
    (∀ e ∈ es, ∀ b d, e.loc = .ptr b d →
      e.be = c.be0 ∧ 0 < nbytes e.val ∧ 8 * nbytes e.val = e.val.size ∧ (⟨b, d, nbytes e.val⟩ : Access) ∈ c.acc) →
    SInv c bg (es.foldl (rebuildStep c.cfg) acc) ∧ (es.foldl (rebuildStep c.cfg) acc).entries = acc.entries ++ es
  | [], acc, h, _, _, _ => by simp [h]
  | e :: rest, acc, h, hnd, hreg, hptr => by
    have hfresh : ∀ e' ∈ acc.entries, e'.loc ≠ e.loc := by
      intro e' he' heq
      rw [List.map_append, List.nodup_append] at hnd
      exact hnd.2.2 _ (List.mem_map_of_mem he') _ (List.mem_map_of_mem List.mem_cons_self) heq
    obtain ⟨h1, h2⟩ := rebuildStep_spec h ok e hfresh (hreg e List.mem_cons_self) (hptr e List.mem_cons_self)
    have hnd' : (((rebuildStep c.cfg acc e).entries ++ rest).map Entry.loc).Nodup := by
      rw [h2, List.append_assoc]; exact hnd
    obtain ⟨h3, h4⟩ := rebuild_fold ok rest (rebuildStep c.cfg acc e) h1 hnd'
      (fun e' he' => hreg e' (List.mem_cons_of_mem _ he')) (fun e' he' => hptr e' (List.mem_cons_of_mem _ he'))
    refine ⟨h3, ?_⟩
    rw [List.foldl_cons, h4, h2, List.append_assoc]; rfl

theorem SInv.rebuild {m : MapSt} (h : SInv c noBg m) (ok : c.OK) :
    SInv c noBg (m.rebuild c.cfg) ∧ (m.rebuild c.cfg).entries = m.entries := by
  -- the copied memory as background
  have h0 : SInv c (fun zk x => zbyte c.sem c.σ m zk x)
      { entries := [], lastw := 0, zones := copyZones m.zones, tbl := m.tbl } := by
    refine ⟨h.zwf.copy, ?_, ?_, List.nodup_nil, ?_, ?_, ?_⟩
    · intro zk x w k hx
      simp only at hx
      rw [(zoneOf_copy_abs m.zones h.zwf zk).2] at hx
      exact h.atoms zk x w k hx
    · intro i hi; simp at hi
    · intro e he; simp at he
    · intro e he; simp at he
    · intro zk x
      simp only [lastZ, Option.none_or]
      unfold zbyte
      simp only
      rw [(zoneOf_copy_abs m.zones h.zwf zk).2]
  obtain ⟨h1, h2⟩ := rebuild_fold ok m.entries _ h0 (by simpa using h.nodup) h.regsz h.pent
  rw [← rebuild_eq] at h1 h2
  simp only [List.nil_append] at h2
  refine ⟨⟨h1.zwf, h1.atoms, h1.lastw, h1.nodup, h1.regsz, h1.pent, ?_⟩, h2⟩
  intro zk x
  rw [h1.zone, h2, h.zone]
  simp only [noBg, Option.or_none]
  cases lastZ c.sem c.σ m.entries zk x <;> rfl

theorem Inv.rebuild {μt ρt} {m : MapSt} (h : Inv c μt ρt m) (ok : c.OK) : Inv c μt ρt (m.rebuild c.cfg) := by
  obtain ⟨h1, h2⟩ := h.s.rebuild ok
  refine ⟨h1, ?_, ?_⟩
  · intro n s
    rw [R_eq, h2, ← R_eq]; exact h.regs n s
  · intro x; rw [h2]; exact h.mem x

end Amoco.Mapper
