/-
  Amoco.Proofs.Mapper.Exec — substitution lemma (`e.eval(m)` / `m(e)` evaluates to the value of `e` in the
  current concrete state), one IR statement, whole programs.
-/
import Amoco.Proofs.Mapper.Rebuild

set_option linter.unusedSimpArgs false
set_option linter.unusedVariables false

namespace Amoco.Mapper

variable {c : Ctx}

/-- agreement of two states: registers modulo their width, memory byte for byte -/
def St.agrees (σ1 σ2 : St) : Prop :=
  (∀ n s, σ1.reg n s % 2 ^ s = σ2.reg n s % 2 ^ s) ∧ ∀ x, σ1.mem x = σ2.mem x

theorem eval_load_nil (cfg : Cfg) (m : MapSt) (b : E) (d : Int) (s : Nat) (be : Bool) :
    eval cfg m (.load b d s be .nil) =
      (m.rebuild cfg).M cfg (mkPtr (eval cfg m b) d).1 (mkPtr (eval cfg m b) d).2 s be := by
  conv => lhs; unfold eval
  simp only [Mods.toList, evalMods, ite_self, List.foldl_nil]

theorem X.val_congr (sem : OpSem) (be : Bool) (σ1 σ2 : St)
    (hr : ∀ n s, σ1.reg n s % 2 ^ s = σ2.reg n s % 2 ^ s) (hm : ∀ x, σ1.mem x = σ2.mem x) :
    ∀ x : X, x.val sem be σ1 = x.val sem be σ2
  | .cst _ _ => rfl
  | .reg n s => hr n s
  | .slc x p s => by simp only [X.val, X.val_congr sem be σ1 σ2 hr hm x]
  | .cat lo hi => by simp only [X.val, X.val_congr sem be σ1 σ2 hr hm lo, X.val_congr sem be σ1 σ2 hr hm hi]
  | .addc x c => by simp only [X.val, X.val_congr sem be σ1 σ2 hr hm x]
  | .op o l r s => by simp only [X.val, X.val_congr sem be σ1 σ2 hr hm l, X.val_congr sem be σ1 σ2 hr hm r]
  | .load b d s => by
    simp only [X.val, X.val_congr sem be σ1 σ2 hr hm b]
    apply readN_congr
    intro k _
    rw [hm]

/-- **substitution lemma**: evaluating a right-hand side in the map gives an expression whose value in
    the initial state is the value of the right-hand side in the current state. -/
theorem Inv.eval_sound {μt ρt} {m : MapSt} (h : Inv c μt ρt m) :
    ∀ (x : X), (x.loadFree = true ∨ c.OK) → x.wf = true → (∀ a ∈ loadsOf c.cfg m (x.toE c.be0), a ∈ c.acc) →
      ideal c.sem c.σ (eval c.cfg m (x.toE c.be0)) = x.val c.sem c.be0 ⟨ρt, μt⟩ ∧
      (eval c.cfg m (x.toE c.be0)).size = x.size
  | .cst v s, _, _, _ => ⟨rfl, rfl⟩
  | .reg n s, _, _, _ => by
    simp only [X.toE, eval, X.val, X.size]
    exact ⟨h.regs n s, h.s.R_size n s⟩
  | .slc x p s, ok, hwf, hacc => by
    simp only [X.wf, Bool.and_eq_true] at hwf
    obtain ⟨ih1, _⟩ := Inv.eval_sound h x (by simpa [X.loadFree] using ok) hwf.1 (by simpa [X.toE, loadsOf] using hacc)
    simp only [X.toE, eval, X.val, X.size, ideal_mkSlice, size_mkSlice, ih1, and_self]
  | .cat lo hi, ok, hwf, hacc => by
    simp only [X.wf, Bool.and_eq_true] at hwf
    simp only [X.toE, loadsOf, List.mem_append] at hacc
    have ok1 : lo.loadFree = true ∨ c.OK := ok.imp (fun h => by simp only [X.loadFree, Bool.and_eq_true] at h; exact h.1) id
    have ok2 : hi.loadFree = true ∨ c.OK := ok.imp (fun h => by simp only [X.loadFree, Bool.and_eq_true] at h; exact h.2) id
    obtain ⟨l1, l2⟩ := Inv.eval_sound h lo ok1 hwf.1 (fun a ha => hacc a (Or.inl ha))
    obtain ⟨r1, r2⟩ := Inv.eval_sound h hi ok2 hwf.2 (fun a ha => hacc a (Or.inr ha))
    simp only [X.toE, eval, X.val, X.size, ideal_mkCat, size_mkCat, l2, r2, and_true]
    have hl := ideal_lt c.sem c.σ (eval c.cfg m (lo.toE c.be0))
    have hr := ideal_lt c.sem c.σ (eval c.cfg m (hi.toE c.be0))
    rw [l1, l2] at hl
    rw [r1, r2] at hr
    rw [l1, r1, Nat.mod_eq_of_lt hl, Nat.mod_eq_of_lt hr]
  | .addc x k, ok, hwf, hacc => by
    simp only [X.wf] at hwf
    obtain ⟨ih1, ih2⟩ := Inv.eval_sound h x (by simpa [X.loadFree] using ok) hwf (by simpa [X.toE, loadsOf] using hacc)
    simp only [X.toE, eval, X.val, X.size, ideal_mkAddc, size_mkAddc, ih1, ih2, and_self]
  | .op o l r s, ok, hwf, hacc => by
    simp only [X.wf, Bool.and_eq_true] at hwf
    simp only [X.toE, loadsOf, List.mem_append] at hacc
    have ok1 : l.loadFree = true ∨ c.OK := ok.imp (fun h => by simp only [X.loadFree, Bool.and_eq_true] at h; exact h.1) id
    have ok2 : r.loadFree = true ∨ c.OK := ok.imp (fun h => by simp only [X.loadFree, Bool.and_eq_true] at h; exact h.2) id
    obtain ⟨l1, _⟩ := Inv.eval_sound h l ok1 hwf.1 (fun a ha => hacc a (Or.inl ha))
    obtain ⟨r1, _⟩ := Inv.eval_sound h r ok2 hwf.2 (fun a ha => hacc a (Or.inr ha))
    simp only [X.toE, eval, X.val, X.size, ideal, E.size, l1, r1, and_self]
  | .load b d s, ok', hwf, hacc => by
    have ok : c.OK := by
      rcases ok' with h | h
      · simp [X.loadFree] at h
      · exact h
    simp only [X.wf, Bool.and_eq_true, decide_eq_true_eq] at hwf
    obtain ⟨⟨hwb, hs0⟩, hs8⟩ := hwf
    simp only [X.toE, loadsOf, loadsOfMods, List.append_nil, List.mem_append, List.mem_singleton] at hacc
    obtain ⟨b1, b2⟩ := Inv.eval_sound h b (Or.inr ok) hwb (fun a ha => hacc a (Or.inl ha))
    simp only [X.toE, X.val, X.size]
    rw [eval_load_nil]
    have hr := h.rebuild ok
    have hin := hacc ⟨(mkPtr (eval c.cfg m (b.toE c.be0)) d).1, (mkPtr (eval c.cfg m (b.toE c.be0)) d).2, s / 8⟩
      (Or.inr rfl)
    have hsz : 0 < s / 8 := by omega
    have h8 : 8 * (s / 8) = s := by omega
    obtain ⟨m1, m2⟩ := hr.M_sound ok _ _ s hsz h8 (ok.nowrap _ hin) (by
      intro hna e he b' d' hl
      exact ok.apart hna _ (hr.s.pent e he b' d' hl).2.2.2 _ hin)
    refine ⟨?_, m2⟩
    rw [m1]
    unfold locAddr
    rw [addrOf_mkPtr, b1, b2]

theorem Inv.empty_state {μt ρt} {m : MapSt} (h : Inv c μt ρt m) (he : m.entries = []) :
    (∀ n s, ρt n s % 2 ^ s = c.σ.reg n s % 2 ^ s) ∧ ∀ x, μt x = c.σ.mem x := by
  constructor
  · intro n s
    have := h.regs n s
    unfold MapSt.R MapSt.lookup at this
    rw [he] at this
    simp only [List.find?_nil, ideal] at this
    exact this.symm
  · intro x
    have := h.mem x
    rw [he] at this
    simpa [replayEntries] using this.symm

/-- `m(e)` (with its shortcut on an untouched map) -/
theorem Inv.call_sound {μt ρt} {m : MapSt} (h : Inv c μt ρt m) (x : X) (ok : x.loadFree = true ∨ c.OK)
    (hwf : x.wf = true)
    (hacc : ∀ a ∈ loadsOf c.cfg m (x.toE c.be0), a ∈ c.acc) :
    ideal c.sem c.σ (m.call c.cfg (x.toE c.be0)) = x.val c.sem c.be0 ⟨ρt, μt⟩ ∧
    (m.call c.cfg (x.toE c.be0)).size = x.size := by
  unfold MapSt.call
  split
  · rename_i hs
    simp only [Bool.and_eq_true, List.isEmpty_iff] at hs
    obtain ⟨e1, e2⟩ := h.empty_state hs.1
    refine ⟨?_, by rw [(foldE_spec c.sem c.σ _).2]; exact size_toE _ _⟩
    rw [(foldE_spec c.sem c.σ _).1, ideal_toE]
    exact X.val_congr _ _ _ _ (fun n s => (e1 n s).symm) (fun x => (e2 x).symm) x
  · exact h.eval_sound x ok hwf hacc

/-- **one statement**: the symbolic step stands for the concrete step -/
theorem Inv.step {μt ρt} {m : MapSt} (h : Inv c μt ρt m) (st : Stmt) (ok' : st.regsOnly = true ∨ c.OK)
    (hwf : st.wf = true)
    (hacc : ∀ a ∈ stmtAccesses c.cfg c.be0 m st, a ∈ c.acc) :
    Inv c (concStep c.sem c.be0 ⟨ρt, μt⟩ st).mem (concStep c.sem c.be0 ⟨ρt, μt⟩ st).reg
      (symStep c.cfg c.be0 m st) := by
  cases st with
  | set n rs pos size e =>
    simp only [Stmt.wf, Bool.and_eq_true, decide_eq_true_eq] at hwf
    obtain ⟨⟨hwe, hsz⟩, hps⟩ := hwf
    simp only [stmtAccesses] at hacc
    obtain ⟨v1, v2⟩ := h.call_sound e (by simpa [Stmt.regsOnly] using ok') hwe hacc
    have := h.setReg n rs pos size (m.call c.cfg (e.toE c.be0)) (by rw [v2, hsz]) hps
    rw [v1] at this
    exact this
  | store b d size e =>
    have ok : c.OK := by
      rcases ok' with h | h
      · simp [Stmt.regsOnly] at h
      · exact h
    simp only [Stmt.wf, Bool.and_eq_true, decide_eq_true_eq] at hwf
    obtain ⟨⟨⟨⟨hwb, hwe⟩, hsz⟩, hs0⟩, hs8⟩ := hwf
    simp only [stmtAccesses, List.mem_append, List.mem_singleton] at hacc
    obtain ⟨v1, v2⟩ := h.call_sound e (Or.inr ok) hwe (fun a ha => hacc a (Or.inl (Or.inl ha)))
    obtain ⟨b1, b2⟩ := h.eval_sound b (Or.inr ok) hwb (fun a ha => hacc a (Or.inl (Or.inr ha)))
    have hnb : nbytes (m.call c.cfg (e.toE c.be0)) = size / 8 := by unfold nbytes; rw [v2, hsz]
    have hin := hacc ⟨(mkPtr (eval c.cfg m (b.toE c.be0)) d).1, (mkPtr (eval c.cfg m (b.toE c.be0)) d).2, size / 8⟩
      (Or.inr rfl)
    have := h.setPtr ok (mkPtr (eval c.cfg m (b.toE c.be0)) d).1 (mkPtr (eval c.cfg m (b.toE c.be0)) d).2
      (m.call c.cfg (e.toE c.be0)) (by rw [hnb]; omega) (by rw [hnb, v2, hsz]; omega) (by rw [hnb]; exact hin)
    simp only [symStep, concStep]
    rw [hnb, v1] at this
    unfold locAddr at this
    rw [addrOf_mkPtr, b1, b2] at this
    exact this

/-- the empty map stands for the initial state -/
theorem Inv.init (c : Ctx) : Inv c c.σ.mem c.σ.reg MapSt.empty := by
  refine ⟨⟨zonesWF_nil, ?_, ?_, List.nodup_nil, ?_, ?_, ?_⟩, ?_, ?_⟩
  · intro zk x w k hx
    simp [MapSt.empty, zoneOf, Amoco.Memory.Zone.empty_abs] at hx
  · intro i hi; simp [MapSt.empty] at hi
  · intro e he; simp [MapSt.empty] at he
  · intro e he; simp [MapSt.empty] at he
  · intro zk x
    simp [zbyte, MapSt.empty, zoneOf, Amoco.Memory.Zone.empty_abs, lastZ, noBg]
  · intro n s; rfl
  · intro x; rfl

/-- **whole programs**, from any map that stands for a state -/
theorem Inv.prog : ∀ (stmts : List Stmt) (m : MapSt) (μt : Int → Nat) (ρt : String → Nat → Nat),
    Inv c μt ρt m → ((∀ s ∈ stmts, s.regsOnly = true) ∨ c.OK) →
    (∀ s ∈ stmts, s.wf = true) → (∀ a ∈ progAccesses c.cfg c.be0 m stmts, a ∈ c.acc) →
    Inv c (stmts.foldl (concStep c.sem c.be0) ⟨ρt, μt⟩).mem (stmts.foldl (concStep c.sem c.be0) ⟨ρt, μt⟩).reg
      (stmts.foldl (symStep c.cfg c.be0) m)
  | [], m, μt, ρt, h, _, _, _ => h
  | s :: rest, m, μt, ρt, h, ok, hwf, hacc => by
    simp only [progAccesses, List.mem_append] at hacc
    have h1 := h.step s (ok.imp (fun h => h s List.mem_cons_self) id) (hwf s List.mem_cons_self)
      (fun a ha => hacc a (Or.inl ha))
    exact Inv.prog rest _ _ _ h1 (ok.imp (fun h s' hs' => h s' (List.mem_cons_of_mem _ hs')) id)
      (fun s' hs' => hwf s' (List.mem_cons_of_mem _ hs')) (fun a ha => hacc a (Or.inr ha))

end Amoco.Mapper
