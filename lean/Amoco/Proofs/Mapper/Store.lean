/-
  Amoco.Proofs.Mapper.Store — `__setitem__`, pointer branch, preserves the invariant.
-/
import Amoco.Proofs.Mapper.Steps

set_option linter.unusedSimpArgs false
set_option linter.unusedVariables false

namespace Amoco.Mapper

variable {c : Ctx}

/-- write `r` at `ptr(b, d)` and record it as the last item (what `setPtr` does once `r` is known) -/
def MapSt.putPtr (m : MapSt) (b : E) (d : Int) (r : E) (be : Bool) : MapSt :=
  { memWrite m b d r be with
      lastw := (memWrite m b d r be).entries.length + 1
      entries := (memWrite m b d r be).entries ++ [⟨.ptr b d, r, be⟩] }

/-- the right-value `setPtr` writes: `v`, or `v` composed with the bytes of a previous wider write -/
def setPtrVal (cfg : Cfg) (m : MapSt) (b : E) (d : Int) (v : E) (be : Bool) : E :=
  match m.lookup (.ptr b d) with
  | some old =>
    if old.val.size > v.size then
      if be then mkCat (m.M cfg b (d + (v.size / 8 : Nat)) (old.val.size - v.size) be) v
      else mkCat v (m.M cfg b (d + (v.size / 8 : Nat)) (old.val.size - v.size) be)
    else v
  | none => v

theorem setPtr_eq (cfg : Cfg) (m : MapSt) (b : E) (d : Int) (v : E) (be : Bool) (h : cfg.records = true) :
    m.setPtr cfg b d v be = m.putPtr b d (setPtrVal cfg m b d v be) be := by
  unfold MapSt.setPtr MapSt.putPtr setPtrVal
  simp only [h, if_true]
  cases m.lookup (.ptr b d) with
  | none => rfl
  | some old => simp only

theorem zbyte_putPtr (m : MapSt) (b : E) (d : Int) (r : E) (be : Bool) (zk : ZK) (x : Int) :
    zbyte c.sem c.σ (m.putPtr b d r be) zk x = zbyte c.sem c.σ (memWrite m b d r be) zk x := rfl

theorem atZone_new (b : E) (d : Int) (r : E) (be : Bool) (zk : ZK) (x : Int) :
    (⟨.ptr b d, r, be⟩ : Entry).atZone c.sem c.σ zk x =
      if zk = (zref b d).1 ∧ (zref b d).2 ≤ x ∧ x < (zref b d).2 + (nbytes r : Int)
      then some (byteAt (ideal c.sem c.σ r) (nbytes r) (x - (zref b d).2).toNat be) else none := by
  unfold Entry.atZone
  simp only
  by_cases h : zk = (zref b d).1 ∧ (zref b d).2 ≤ x ∧ x < (zref b d).2 + (nbytes r : Int)
  · rw [if_pos h, if_pos ⟨h.1.symm, h.2⟩]
  · rw [if_neg h, if_neg (fun h' => h ⟨h'.1.symm, h'.2⟩)]

/-- structural part: writing `r` (covering every earlier item of the location) keeps `SInv` -/
theorem SInv.putPtr {bg} {m : MapSt} (h : SInv c bg m) (b : E) (d : Int) (r : E)
    (hr0 : 0 < nbytes r) (hr8 : 8 * nbytes r = r.size) (hacc : (⟨b, d, nbytes r⟩ : Access) ∈ c.acc)
    (hcov : ∀ e ∈ m.entries, e.loc = .ptr b d → nbytes e.val ≤ nbytes r) :
    SInv c bg (m.putPtr b d r c.be0) := by
  obtain ⟨w1, w2, w3, w4, w5, w6⟩ := memWrite_spec c.sem c.σ m b d r c.be0 h.zwf h.atoms hr0
  have hent : (m.putPtr b d r c.be0).entries =
      m.entries.filter (fun e => e.loc != .ptr b d) ++ [⟨.ptr b d, r, c.be0⟩] := by
    simp only [MapSt.putPtr, w5]
  have hmemf : ∀ e, e ∈ m.entries.filter (fun e => e.loc != .ptr b d) → e ∈ m.entries ∧ e.loc ≠ .ptr b d := by
    intro e he
    have := List.mem_filter.mp he
    exact ⟨this.1, by simpa using this.2⟩
  refine ⟨w1, w2, ?_, ?_, ?_, ?_, ?_⟩
  · intro i hi _
    simp only [MapSt.putPtr] at hi ⊢
    simpa using hi
  · rw [hent, List.map_append, List.nodup_append]
    refine ⟨(h.nodup.sublist (List.filter_sublist.map _)), by simp, ?_⟩
    intro a ha b' hb'
    simp only [List.map_cons, List.map_nil, List.mem_singleton] at hb'
    subst hb'
    obtain ⟨e0, he0, hl0⟩ := List.mem_map.mp ha
    intro e; subst e
    exact (hmemf e0 he0).2 hl0
  · intro e he n s hl
    rw [hent] at he
    rcases List.mem_append.mp he with he | he
    · exact h.regsz e (hmemf e he).1 n s hl
    · simp only [List.mem_singleton] at he; subst he; cases hl
  · intro e he b' d' hl
    rw [hent] at he
    rcases List.mem_append.mp he with he | he
    · exact h.pent e (hmemf e he).1 b' d' hl
    · simp only [List.mem_singleton] at he; subst he
      cases hl
      exact ⟨rfl, hr0, hr8, hacc⟩
  · intro zk x
    rw [zbyte_putPtr, w6, hent, lastZ_append]
    simp only [lastZ, Option.none_or]
    rw [atZone_new]
    by_cases hc : zk = (zref b d).1 ∧ (zref b d).2 ≤ x ∧ x < (zref b d).2 + (nbytes r : Int)
    · rw [if_pos hc, if_pos hc]; rfl
    · rw [if_neg hc, if_neg hc, h.zone]
      simp only [Option.none_or]
      rw [lastZ_filter]
      intro e he hl
      unfold Entry.atZone
      rw [hl]
      simp only
      have hle := hcov e he hl
      rw [if_neg]
      intro hq
      exact hc ⟨hq.1.symm, hq.2.1, by omega⟩

/-- replaying the items after `putPtr`: the new item wins on its range, elsewhere nothing changed -/
theorem lastAddr_putPtr (m : MapSt) (b : E) (d : Int) (r : E) (be : Bool) (x : Int)
    (hcov : ∀ e ∈ m.entries, e.loc = .ptr b d → nbytes e.val ≤ nbytes r) :
    lastAddr c.sem c.σ (m.putPtr b d r be).entries x =
      if locAddr c.sem c.σ b d ≤ x ∧ x < locAddr c.sem c.σ b d + (nbytes r : Int)
      then some (byteAt (ideal c.sem c.σ r) (nbytes r) (x - locAddr c.sem c.σ b d).toNat be)
      else lastAddr c.sem c.σ m.entries x := by
  have hent : (m.putPtr b d r be).entries =
      m.entries.filter (fun e => e.loc != .ptr b d) ++ [⟨.ptr b d, r, be⟩] := rfl
  rw [hent, lastAddr_append]
  simp only [lastAddr, Option.none_or]
  have hnew : (⟨.ptr b d, r, be⟩ : Entry).atAddr c.sem c.σ x =
      if locAddr c.sem c.σ b d ≤ x ∧ x < locAddr c.sem c.σ b d + (nbytes r : Int)
      then some (byteAt (ideal c.sem c.σ r) (nbytes r) (x - locAddr c.sem c.σ b d).toNat be) else none := rfl
  rw [hnew]
  by_cases hc : locAddr c.sem c.σ b d ≤ x ∧ x < locAddr c.sem c.σ b d + (nbytes r : Int)
  · rw [if_pos hc, if_pos hc]; rfl
  · rw [if_neg hc, if_neg hc]
    simp only [Option.none_or]
    rw [lastAddr_filter]
    intro e he hl
    unfold Entry.atAddr
    rw [hl]
    simp only
    have hle := hcov e he hl
    rw [if_neg]
    intro hq
    exact hc ⟨hq.1, by omega⟩

theorem R_putPtr (m : MapSt) (b : E) (d : Int) (r : E) (be : Bool) (n : String) (s : Nat) :
    (m.putPtr b d r be).R n s = m.R n s := by
  rw [R_eq, R_eq]
  have hent : (m.putPtr b d r be).entries =
      m.entries.filter (fun e => e.loc != .ptr b d) ++ [⟨.ptr b d, r, be⟩] := rfl
  rw [hent, find_append_ne _ _ _ (by simp), lookup_filter_ne _ _ _ (by simp)]

/-- **the pointer branch, semantically**: if the bytes of `r` are those of `v` followed by the current
    memory, writing `r` at `ptr(b, d)` yields the map of the state after storing `v` there. -/
theorem Inv.putPtr {μt ρt} {m : MapSt} (h : Inv c μt ρt m) (b : E) (d : Int) (v r : E)
    (hr0 : 0 < nbytes r) (hr8 : 8 * nbytes r = r.size) (hacc : (⟨b, d, nbytes r⟩ : Access) ∈ c.acc)
    (hcov : ∀ e ∈ m.entries, e.loc = .ptr b d → nbytes e.val ≤ nbytes r)
    (hvr : nbytes v ≤ nbytes r)
    (hbytes : ∀ j, j < nbytes r → byteAt (ideal c.sem c.σ r) (nbytes r) j c.be0 =
      if j < nbytes v then byteAt (ideal c.sem c.σ v) (nbytes v) j c.be0
      else μt (locAddr c.sem c.σ b d + (j : Int))) :
    Inv c (writeN μt (locAddr c.sem c.σ b d) (nbytes v) (ideal c.sem c.σ v) c.be0) ρt (m.putPtr b d r c.be0) := by
  refine ⟨h.s.putPtr b d r hr0 hr8 hacc hcov, ?_, ?_⟩
  · intro n s
    rw [R_putPtr]; exact h.regs n s
  · intro x
    rw [replayEntries_eq, lastAddr_putPtr m b d r c.be0 x hcov]
    by_cases hc : locAddr c.sem c.σ b d ≤ x ∧ x < locAddr c.sem c.σ b d + (nbytes r : Int)
    · rw [if_pos hc]
      simp only [Option.getD_some]
      have hj : (x - locAddr c.sem c.σ b d).toNat < nbytes r := by omega
      rw [hbytes _ hj]
      have hx : x = locAddr c.sem c.σ b d + ((x - locAddr c.sem c.σ b d).toNat : Int) := by omega
      split
      · rename_i hjv
        conv => rhs; rw [hx]
        exact (writeN_in _ _ _ _ _ _ hjv).symm
      · rename_i hjv
        rw [writeN_out _ _ _ _ _ _ (by omega)]
        rw [← hx]
    · rw [if_neg hc, writeN_out _ _ _ _ _ _ (by omega)]
      rw [← h.mem x, replayEntries_eq]

theorem lookup_unique {bg} {m : MapSt} (h : SInv c bg m) (l : Loc) (old e : Entry)
    (hl : m.lookup l = some old) (he : e ∈ m.entries) (hel : e.loc = l) : e = old := by
  unfold MapSt.lookup at hl
  have hm := List.mem_of_find?_eq_some hl
  have hol0 := List.find?_some hl
  have hol : old.loc = l := of_decide_eq_true hol0
  have hnd := h.nodup
  -- two members of a list with distinct locations
  obtain ⟨i, hi, rfl⟩ := List.getElem_of_mem he
  obtain ⟨j, hj, rfl⟩ := List.getElem_of_mem hm
  have hpw := List.pairwise_iff_getElem.mp hnd
  have hij : i = j := by
    rcases Nat.lt_trichotomy i j with hlt | heq | hlt
    · have := hpw i j (by simpa using hi) (by simpa using hj) hlt
      simp [hel, hol] at this
    · exact heq
    · have := hpw j i (by simpa using hj) (by simpa using hi) hlt
      simp [hel, hol] at this
  subst hij; rfl

theorem lookup_none_mem (m : MapSt) (l : Loc) (hl : m.lookup l = none) (e : Entry) (he : e ∈ m.entries) :
    e.loc ≠ l := by
  unfold MapSt.lookup at hl
  have := List.find?_eq_none.mp hl e he
  simpa using this

/-- **`__setitem__`, pointer branch** (`m[mem(ptr(b,d))] = v`): the map of the state after the store. -/
theorem Inv.setPtr {μt ρt} {m : MapSt} (h : Inv c μt ρt m) (ok : c.OK) (b : E) (d : Int) (v : E)
    (hv0 : 0 < nbytes v) (hv8 : 8 * nbytes v = v.size) (hacc : (⟨b, d, nbytes v⟩ : Access) ∈ c.acc) :
    Inv c (writeN μt (locAddr c.sem c.σ b d) (nbytes v) (ideal c.sem c.σ v) c.be0) ρt
      (m.setPtr c.cfg b d v c.be0) := by
  rw [setPtr_eq _ _ _ _ _ _ ok.recs]
  have hμ : Bytes μt := h.mem_bytes ok
  unfold setPtrVal
  cases hlk : m.lookup (.ptr b d) with
  | none =>
    simp only
    apply h.putPtr b d v v hv0 hv8 hacc
    · intro e he hl; exact absurd hl (lookup_none_mem m _ hlk e he)
    · exact Nat.le_refl _
    · intro j hj; rw [if_pos hj]
  | some old =>
    simp only
    have hlk' : m.entries.find? (fun e => e.loc = .ptr b d) = some old := hlk
    have holdm : old ∈ m.entries := List.mem_of_find?_eq_some hlk'
    have holdl0 := List.find?_some hlk'
    have holdl : old.loc = .ptr b d := of_decide_eq_true holdl0
    obtain ⟨_, ho0, ho8, hoacc⟩ := h.s.pent old holdm b d holdl
    by_cases hgt : old.val.size > v.size
    · rw [if_pos hgt]
      -- the bytes of the old, wider write that stay in place are read back through `M`
      have hnv : v.size / 8 = nbytes v := rfl
      have hlt : nbytes v < nbytes old.val := by omega
      have hnr : (old.val.size - v.size) / 8 = nbytes old.val - nbytes v := by omega
      have hnr8 : 8 * ((old.val.size - v.size) / 8) = old.val.size - v.size := by omega
      have hwold := ok.nowrap _ hoacc
      obtain ⟨hloc, _⟩ := sub_access c.sem c.σ b d (nbytes old.val) (nbytes v) hwold hlt
      have hwrest : (⟨b, d + ((v.size / 8 : Nat) : Int), (old.val.size - v.size) / 8⟩ : Access).noWrap c.sem c.σ := by
        rw [hnv, hnr]
        exact sub_noWrap c.sem c.σ b d (nbytes old.val) (nbytes v) _ hwold (by omega) (by omega)
      have haprest : c.cfg.noaliasing = true → ∀ e ∈ m.entries, ∀ b' d', e.loc = .ptr b' d' →
          Access.apart c.sem c.σ ⟨b', d', nbytes e.val⟩
            ⟨b, d + ((v.size / 8 : Nat) : Int), (old.val.size - v.size) / 8⟩ := by
        intro hna e he b' d' hl'
        rw [hnv, hnr]
        have hea := (h.s.pent e he b' d' hl').2.2.2
        have := ok.apart hna _ hoacc _ hea
        exact apart_symm _ _ _ _ (sub_apart c.sem c.σ b d (nbytes old.val) (nbytes v) _ _ hwold (by omega) (by omega) this)
      obtain ⟨hrest, hrsz⟩ := h.M_sound ok b (d + ((v.size / 8 : Nat) : Int)) (old.val.size - v.size)
        (by omega) hnr8 hwrest haprest
      rw [hnv] at hrest hrsz
      rw [hnr, hloc] at hrest
      have hr8' : 8 * nbytes (m.M c.cfg b (d + (nbytes v : Int)) (old.val.size - v.size) c.be0) =
          (m.M c.cfg b (d + (nbytes v : Int)) (old.val.size - v.size) c.be0).size := by
        have e : ∀ R : E, nbytes R = R.size / 8 := fun _ => rfl
        rw [e, hrsz]; omega
      have hnrest : nbytes (m.M c.cfg b (d + (nbytes v : Int)) (old.val.size - v.size) c.be0) =
          nbytes old.val - nbytes v := by
        have e : ∀ R : E, nbytes R = R.size / 8 := fun _ => rfl
        rw [e, hrsz]; exact hnr
      rw [hnv]
      -- bytes of the read-back part
      have hrb : ∀ i, i < nbytes old.val - nbytes v →
          byteAt (ideal c.sem c.σ (m.M c.cfg b (d + (nbytes v : Int)) (old.val.size - v.size) c.be0))
            (nbytes old.val - nbytes v) i c.be0 = μt (locAddr c.sem c.σ b d + ((nbytes v + i : Nat) : Int)) := by
        intro i hi
        rw [hrest, byteAt_readN _ _ _ _ _ hi, Nat.mod_eq_of_lt (hμ _)]
        congr 1; push_cast; omega
      have hrlt0 := ideal_lt c.sem c.σ (m.M c.cfg b (d + (nbytes v : Int)) (old.val.size - v.size) c.be0)
      rw [hrsz] at hrlt0
      clear hrest hwrest haprest
      generalize m.M c.cfg b (d + (nbytes v : Int)) (old.val.size - v.size) c.be0 = R at *
      have hvlt : ideal c.sem c.σ v < 2 ^ (8 * nbytes v) := by rw [hv8]; exact ideal_lt _ _ _
      have hrlt : ideal c.sem c.σ R < 2 ^ (8 * (nbytes old.val - nbytes v)) := by
        rw [show 8 * (nbytes old.val - nbytes v) = old.val.size - v.size by omega]; exact hrlt0
      have hold : ∀ e ∈ m.entries, e.loc = .ptr b d → e = old := fun e he hl => lookup_unique h.s _ old e hlk he hl
      cases hbe : c.be0 with
      | false =>
        simp only [Bool.false_eq_true, if_false]
        obtain ⟨hn1, hn2⟩ := nbytes_mkCat v R hv8 hr8'
        rw [hnrest] at hn1
        have hnr' : nbytes (mkCat v R) = nbytes old.val := by omega
        have := h.putPtr b d v (mkCat v R) (by omega) hn2 (by rw [hnr']; exact hoacc)
          (by intro e he hl; rw [hold e he hl, hnr']; exact Nat.le_refl _) (by omega)
        rw [hbe] at this
        apply this
        intro j hj
        rw [hnr'] at hj ⊢
        rw [ideal_mkCat]
        simp only [byteAt, Bool.false_eq_true, if_false]
        rw [← hv8, byte_cat _ _ _ _ hvlt]
        split
        · rfl
        · rename_i hjv
          have := hrb (j - nbytes v) (by omega)
          rw [hbe] at this
          simp only [byteAt, Bool.false_eq_true, if_false] at this
          rw [this]; congr 2; omega
      | true =>
        simp only [if_true]
        obtain ⟨hn1, hn2⟩ := nbytes_mkCat R v hr8' hv8
        rw [hnrest] at hn1
        have hnr' : nbytes (mkCat R v) = nbytes old.val := by omega
        have := h.putPtr b d v (mkCat R v) (by omega) hn2 (by rw [hnr']; exact hoacc)
          (by intro e he hl; rw [hold e he hl, hnr']; exact Nat.le_refl _) (by omega)
        rw [hbe] at this
        apply this
        intro j hj
        rw [hnr'] at hj ⊢
        rw [ideal_mkCat]
        simp only [byteAt, if_true]
        rw [hrsz, show old.val.size - v.size = 8 * (nbytes old.val - nbytes v) by omega,
          byte_cat _ _ _ _ hrlt]
        split
        · rename_i hi
          have hjv : ¬ j < nbytes v := by omega
          rw [if_neg hjv]
          have := hrb (j - nbytes v) (by omega)
          rw [hbe] at this
          simp only [byteAt, if_true] at this
          rw [show nbytes old.val - nbytes v - 1 - (j - nbytes v) = nbytes old.val - 1 - j by omega] at this
          rw [this]; congr 2; omega
        · rename_i hi
          have hjv : j < nbytes v := by omega
          rw [if_pos hjv]
          congr 3; omega
    · rw [if_neg hgt]
      apply h.putPtr b d v v hv0 hv8 hacc
      · intro e he hl
        rw [lookup_unique h.s _ old e hlk he hl]
        unfold nbytes; omega
      · exact Nat.le_refl _
      · intro j hj; rw [if_pos hj]

end Amoco.Mapper
