/-
  Amoco.Proofs.Mapper.Inv — the invariant tying a symbolic map to the concrete state it stands for, and the
  soundness of `M` (a load through the map reads the bytes of that state).
-/
import Amoco.Proofs.Mapper.Alias

set_option linter.unusedSimpArgs false
set_option linter.unusedVariables false

namespace Amoco.Mapper

/-- what is fixed during a symbolic run: operator meaning, initial state, settings, byte order and the
    list of all accesses of the program, with the hypotheses made on them -/
structure Ctx where
  sem : OpSem
  σ : St
  cfg : Cfg
  be0 : Bool
  acc : List Access

/-- hypotheses on the context: memory writes are recorded, memory holds bytes, no access wraps around the
    address space and — under the no-aliasing assumption — accesses through different zones do not overlap -/
structure Ctx.OK (c : Ctx) : Prop where
  recs : c.cfg.records = true
  bytes : Bytes c.σ.mem
  nowrap : ∀ a ∈ c.acc, a.noWrap c.sem c.σ
  apart : c.cfg.noaliasing = true → ∀ a ∈ c.acc, ∀ b ∈ c.acc, Access.apart c.sem c.σ a b

/-- structural invariant of a map relative to a background content `bg` of the zones -/
structure SInv (c : Ctx) (bg : ZK → Int → Option Nat) (m : MapSt) : Prop where
  zwf : ZonesWF m.zones
  atoms : AtomsOK m
  lastw : ∀ i (hi : i < m.entries.length), (m.entries[i]).loc.isPtr = true → i < m.lastw
  nodup : (m.entries.map Entry.loc).Nodup
  regsz : ∀ e ∈ m.entries, ∀ n s, e.loc = .reg n s → e.val.size = s ∧ e.be = false
  pent : ∀ e ∈ m.entries, ∀ b d, e.loc = .ptr b d →
    e.be = c.be0 ∧ 0 < nbytes e.val ∧ 8 * nbytes e.val = e.val.size ∧ (⟨b, d, nbytes e.val⟩ : Access) ∈ c.acc
  zone : ∀ zk x, zbyte c.sem c.σ m zk x = (lastZ c.sem c.σ m.entries zk x).or (bg zk x)

def noBg : ZK → Int → Option Nat := fun _ _ => none

/-- the map stands for the concrete state (`ρt`, `μt`) reached from `σ` -/
structure Inv (c : Ctx) (μt : Int → Nat) (ρt : String → Nat → Nat) (m : MapSt) : Prop where
  s : SInv c noBg m
  regs : ∀ n s, ideal c.sem c.σ (m.R n s) = ρt n s % 2 ^ s
  mem : ∀ x, replayEntries c.sem c.σ c.σ.mem m.entries x = μt x

variable {c : Ctx}

theorem SInv.R_size {bg} {m : MapSt} (h : SInv c bg m) (n : String) (s : Nat) : (m.R n s).size = s := by
  unfold MapSt.R MapSt.lookup
  cases hf : m.entries.find? (fun e => e.loc = .reg n s) with
  | none => rfl
  | some e =>
    have hm := List.mem_of_find?_eq_some hf
    have hl := List.find?_some hf
    exact (h.regsz e hm n s (of_decide_eq_true hl)).1

theorem SInv.entry_nowrap {bg} {m : MapSt} (h : SInv c bg m) (ok : c.OK) (e : Entry) (he : e ∈ m.entries)
    (b : E) (d : Int) (hl : e.loc = .ptr b d) : (⟨b, d, nbytes e.val⟩ : Access).noWrap c.sem c.σ :=
  ok.nowrap _ (h.pent e he b d hl).2.2.2

theorem Inv.mem_bytes {μt ρt} {m : MapSt} (h : Inv c μt ρt m) (ok : c.OK) : Bytes μt := by
  intro x
  rw [← h.mem x, replayEntries_eq]
  cases hl : lastAddr c.sem c.σ m.entries x with
  | none => exact ok.bytes x
  | some v => exact lastAddr_lt c.sem c.σ _ _ _ hl

/-- the zone-read answer of `M` -/
theorem Inv.M_sound_zone {μt ρt} {m : MapSt} (h : Inv c μt ρt m) (ok : c.OK) (b : E) (d : Int) (size : Nat)
    (hsz : 0 < size / 8) (h8 : 8 * (size / 8) = size)
    (hw : (⟨b, d, size / 8⟩ : Access).noWrap c.sem c.σ)
    (hap : c.cfg.noaliasing = true → ∀ e ∈ m.entries, ∀ b' d', e.loc = .ptr b' d' →
      Access.apart c.sem c.σ ⟨b', d', nbytes e.val⟩ ⟨b, d, size / 8⟩)
    (h0 : aliasing c.cfg m b d size = 0) :
    ideal c.sem c.σ (memRead m b d (size / 8) c.be0) = readN μt (locAddr c.sem c.σ b d) (size / 8) c.be0 ∧
    (memRead m b d (size / 8) c.be0).size = size := by
  refine ⟨?_, by rw [size_memRead m b d _ _ h.s.zwf, h8]⟩
  apply ideal_memRead c.sem c.σ m b d (size / 8) c.be0 h.s.zwf μt (locAddr c.sem c.σ b d)
  intro k hk
  obtain ⟨hl, hz⟩ := sub_access c.sem c.σ b d (size / 8) k hw hk
  have hA : locAddr c.sem c.σ b d = zbase c.sem c.σ (zref b d).1 + (zref b d).2 := hw.1
  -- the key fact: the last item covering the address is the last item covering the zone offset
  have key : lastAddr c.sem c.σ m.entries (zbase c.sem c.σ (zref b d).1 + ((zref b d).2 + (k : Int))) =
      lastZ c.sem c.σ m.entries (zref b d).1 ((zref b d).2 + (k : Int)) := by
    have hwE : ∀ e ∈ m.entries, ∀ b' d', e.loc = .ptr b' d' →
        locAddr c.sem c.σ b' d' = zbase c.sem c.σ (zref b' d').1 + (zref b' d').2 :=
      fun e he b' d' hl' => (h.s.entry_nowrap ok e he b' d' hl').1
    by_cases hna : c.cfg.noaliasing = true
    · -- no-aliasing assumption: items of other zones are apart from the access
      apply lastAddr_eq_lastZ c.sem c.σ _ _ _ hwE
      intro e he b' d' hl' hcov
      rcases hap hna e he b' d' hl' with hsame | hdis
      · exact hsame
      · exfalso
        unfold Entry.atAddr at hcov
        rw [hl'] at hcov
        simp only at hcov hdis
        split at hcov
        · rename_i hc
          have e1 : addrOf b'.size (ideal c.sem c.σ b') d' = locAddr c.sem c.σ b' d' := rfl
          have e2 : addrOf b.size (ideal c.sem c.σ b) d = locAddr c.sem c.σ b d := rfl
          rw [e1, e2, hA] at hdis
          omega
        · simp at hcov
    · have hna' : c.cfg.noaliasing = false := by cases hx : c.cfg.noaliasing <;> simp_all
      rcases aliasing_zero c.cfg m b d size hna' h0 h.s.lastw with hall | ⟨pre, ei, post, hsplit, hli, hsize, hpost⟩
      · -- every pointer item is through the same base
        apply lastAddr_eq_lastZ c.sem c.σ _ _ _ hwE
        intro e he b' d' hl' _
        rw [hall e he b' d' hl']
        exact zref_key b d d'
      · -- the item of this location covers the read; later items are through the same base
        have hei : ei ∈ m.entries := by rw [hsplit]; simp
        have hnb : size / 8 ≤ nbytes ei.val := by
          have := (h.s.pent ei hei b d hli).2.2.1
          unfold nbytes at this ⊢
          omega
        have hcovZ : (ei.atZone c.sem c.σ (zref b d).1 ((zref b d).2 + (k : Int))).isSome := by
          unfold Entry.atZone
          rw [hli]
          dsimp only
          rw [if_pos ⟨rfl, by omega, by omega⟩]; rfl
        have hcovA : (ei.atAddr c.sem c.σ (zbase c.sem c.σ (zref b d).1 + ((zref b d).2 + (k : Int)))).isSome := by
          unfold Entry.atAddr
          rw [hli]
          dsimp only
          rw [if_pos ⟨by omega, by omega⟩]; rfl
        rw [hsplit, lastAddr_append, lastZ_append]
        have hsufA : (lastAddr c.sem c.σ (ei :: post) (zbase c.sem c.σ (zref b d).1 + ((zref b d).2 + (k : Int)))).isSome := by
          simp only [lastAddr]
          cases lastAddr c.sem c.σ post _ with
          | some v => rfl
          | none => simpa using hcovA
        have hsufZ : (lastZ c.sem c.σ (ei :: post) (zref b d).1 ((zref b d).2 + (k : Int))).isSome := by
          simp only [lastZ]
          cases lastZ c.sem c.σ post _ _ with
          | some v => rfl
          | none => simpa using hcovZ
        have hEq : lastAddr c.sem c.σ (ei :: post) (zbase c.sem c.σ (zref b d).1 + ((zref b d).2 + (k : Int))) =
            lastZ c.sem c.σ (ei :: post) (zref b d).1 ((zref b d).2 + (k : Int)) := by
          apply lastAddr_eq_lastZ
          · intro e he b' d' hl'
            exact hwE e (by rw [hsplit]; exact List.mem_append_right _ he) b' d' hl'
          · intro e he b' d' hl' _
            rcases List.mem_cons.mp he with rfl | he
            · rw [hli] at hl'
              cases hl'; rfl
            · rw [hpost e he b' d' hl']
              exact zref_key b d d'
        rw [hEq]
        cases hq : lastZ c.sem c.σ (ei :: post) (zref b d).1 ((zref b d).2 + (k : Int)) with
        | some v => simp
        | none => rw [hq] at hsufZ; simp at hsufZ
  -- both sides through `key`
  have hzone := h.s.zone (zref b d).1 ((zref b d).2 + (k : Int))
  rw [hzone]
  simp only [noBg, Option.or_none]
  rw [← key]
  have hmem := h.mem (locAddr c.sem c.σ b d + (k : Int))
  rw [replayEntries_eq] at hmem
  have e3 : locAddr c.sem c.σ b d + (k : Int) = zbase c.sem c.σ (zref b d).1 + ((zref b d).2 + (k : Int)) := by
    rw [hA]; omega
  rw [e3] at hmem
  rw [e3, ← hmem]
  cases hq : lastAddr c.sem c.σ m.entries (zbase c.sem c.σ (zref b d).1 + ((zref b d).2 + (k : Int))) with
  | some v =>
    simp only [Option.getD_some]
    exact (Nat.mod_eq_of_lt (lastAddr_lt c.sem c.σ _ _ _ hq)).symm
  | none =>
    simp only [Option.getD_none]
    have : addrOf b.size (ideal c.sem c.σ b) (d + (k : Int)) = locAddr c.sem c.σ b (d + (k : Int)) := rfl
    rw [this, hl, e3]


/-- **`M` is sound**: a load of `size` bits at `ptr(b, d)` through the map evaluates to the bytes of the
    current concrete memory, whichever way `M` answers (mods or zone read). -/
theorem Inv.M_sound {μt ρt} {m : MapSt} (h : Inv c μt ρt m) (ok : c.OK) (b : E) (d : Int) (size : Nat)
    (hsz : 0 < size / 8) (h8 : 8 * (size / 8) = size)
    (hw : (⟨b, d, size / 8⟩ : Access).noWrap c.sem c.σ)
    (hap : c.cfg.noaliasing = true → ∀ e ∈ m.entries, ∀ b' d', e.loc = .ptr b' d' →
      Access.apart c.sem c.σ ⟨b', d', nbytes e.val⟩ ⟨b, d, size / 8⟩) :
    ideal c.sem c.σ (m.M c.cfg b d size c.be0) = readN μt (locAddr c.sem c.σ b d) (size / 8) c.be0 ∧
    (m.M c.cfg b d size c.be0).size = size := by
  unfold MapSt.M
  simp only
  by_cases hpos : aliasing c.cfg m b d size > 0
  · -- answered with mods: all pointer items, in order
    have hn : aliasing c.cfg m b d size = m.lastw := by
      rcases aliasing_cases c.cfg m b d size with h0 | hn
      · omega
      · exact hn
    rw [if_pos hpos, hn]
    refine ⟨?_, rfl⟩
    simp only [ideal]
    rw [replayMods_modsOf, ← replayEntries_ptrsOf, ptrsOf_take _ _ h.s.lastw, replayEntries_ptrsOf]
    have : replayEntries c.sem c.σ c.σ.mem m.entries = μt := funext h.mem
    rw [this]; rfl
  · rw [if_neg hpos]
    exact h.M_sound_zone ok b d size hsz h8 hw hap (by omega)

end Amoco.Mapper
