/-
  Amoco.Proofs.Mapper.Trace — the pointer items of a map as a history of byte writes:
  `lastAddr` (last item covering a concrete address), `lastZ` (last item covering an offset of a zone),
  their relation under "no wrap-around", and how they change when an item is appended, removed or when a
  register item changes.
-/
import Amoco.Proofs.Mapper.Zones

set_option linter.unusedSimpArgs false
set_option linter.unusedVariables false

namespace Amoco.Mapper

variable (sem : OpSem) (σ : St)

/-- concrete address of `ptr(b, d)` under `σ` -/
def locAddr (b : E) (d : Int) : Int := addrOf b.size (ideal sem σ b) d

/-- the byte a pointer item holds for the concrete address `x` (none: not covered, or a register item) -/
def Entry.atAddr (e : Entry) (x : Int) : Option Nat :=
  match e.loc with
  | .ptr b d =>
    if locAddr sem σ b d ≤ x ∧ x < locAddr sem σ b d + (nbytes e.val : Int)
    then some (byteAt (ideal sem σ e.val) (nbytes e.val) (x - locAddr sem σ b d).toNat e.be) else none
  | .reg .. => none

/-- the byte a pointer item holds for offset `x` of zone `zk` -/
def Entry.atZone (e : Entry) (zk : ZK) (x : Int) : Option Nat :=
  match e.loc with
  | .ptr b d =>
    if (zref b d).1 = zk ∧ (zref b d).2 ≤ x ∧ x < (zref b d).2 + (nbytes e.val : Int)
    then some (byteAt (ideal sem σ e.val) (nbytes e.val) (x - (zref b d).2).toNat e.be) else none
  | .reg .. => none

/-- byte of the last item (in map order) covering the concrete address `x` -/
def lastAddr : List Entry → Int → Option Nat
  | [], _ => none
  | e :: rest, x => (lastAddr rest x).or (e.atAddr sem σ x)

/-- byte of the last item covering offset `x` of zone `zk` -/
def lastZ : List Entry → ZK → Int → Option Nat
  | [], _, _ => none
  | e :: rest, zk, x => (lastZ rest zk x).or (e.atZone sem σ zk x)

theorem lastAddr_append (l1 l2 : List Entry) (x : Int) :
    lastAddr sem σ (l1 ++ l2) x = (lastAddr sem σ l2 x).or (lastAddr sem σ l1 x) := by
  induction l1 with
  | nil => simp [lastAddr]
  | cons e rest ih =>
    simp only [List.cons_append, lastAddr, ih]
    cases lastAddr sem σ l2 x <;> simp

theorem lastZ_append (l1 l2 : List Entry) (zk : ZK) (x : Int) :
    lastZ sem σ (l1 ++ l2) zk x = (lastZ sem σ l2 zk x).or (lastZ sem σ l1 zk x) := by
  induction l1 with
  | nil => simp [lastZ]
  | cons e rest ih =>
    simp only [List.cons_append, lastZ, ih]
    cases lastZ sem σ l2 zk x <;> simp

theorem lastAddr_lt (es : List Entry) (x : Int) (v : Nat) (h : lastAddr sem σ es x = some v) : v < 256 := by
  induction es with
  | nil => simp [lastAddr] at h
  | cons e rest ih =>
    simp only [lastAddr] at h
    cases hr : lastAddr sem σ rest x with
    | some w => rw [hr] at h; simp at h; subst h; exact ih hr
    | none =>
      rw [hr] at h
      simp only [Option.none_or] at h
      unfold Entry.atAddr at h
      split at h
      · split at h
        · cases h; exact byteAt_lt _ _ _ _
        · cases h
      · cases h

/-- replaying the items = last write wins -/
theorem replayEntries_eq (es : List Entry) (μ : Int → Nat) (x : Int) :
    replayEntries sem σ μ es x = (lastAddr sem σ es x).getD (μ x) := by
  induction es generalizing μ with
  | nil => simp [replayEntries, lastAddr]
  | cons e rest ih =>
    unfold replayEntries lastAddr
    cases hl : e.loc with
    | reg n s =>
      simp only [ih]
      have : e.atAddr sem σ x = none := by simp [Entry.atAddr, hl]
      rw [this]; simp
    | ptr b d =>
      simp only [ih]
      cases lastAddr sem σ rest x with
      | some v => simp
      | none =>
        simp only [Option.none_or, Option.getD_none]
        show writeN μ (locAddr sem σ b d) (nbytes e.val) (ideal sem σ e.val) e.be x = _
        by_cases hc : locAddr sem σ b d ≤ x ∧ x < locAddr sem σ b d + (nbytes e.val : Int)
        · have h1 : e.atAddr sem σ x = some (byteAt (ideal sem σ e.val) (nbytes e.val)
              (x - locAddr sem σ b d).toNat e.be) := by
            unfold Entry.atAddr; rw [hl]; dsimp only; rw [if_pos hc]
          rw [h1]; unfold writeN; rw [if_pos hc]; rfl
        · have h1 : e.atAddr sem σ x = none := by
            unfold Entry.atAddr; rw [hl]; dsimp only; rw [if_neg hc]
          rw [h1]; unfold writeN; rw [if_neg hc]; rfl

theorem replayMods_modsOf (es : List Entry) (μ : Int → Nat) :
    replayMods sem σ μ (modsOf es) = replayEntries sem σ μ es := by
  induction es generalizing μ with
  | nil => simp [modsOf, replayMods, replayEntries]
  | cons e rest ih =>
    unfold modsOf replayEntries
    cases hl : e.loc with
    | reg n s => simp only [ih]
    | ptr b d => simp only [replayMods, ih]

/-! ### zone offsets and concrete addresses -/

/-- value of the zone base under `σ` -/
theorem zref_key (b : E) (d d' : Int) : (zref b d').1 = (zref b d).1 := by
  unfold zref
  split <;> rfl

/-- an item that does not wrap around covers `zbase + x` exactly when it covers offset `x` of its zone -/
theorem atAddr_eq_atZone (e : Entry) (zk : ZK) (x : Int)
    (hw : ∀ b d, e.loc = .ptr b d → locAddr sem σ b d = zbase sem σ (zref b d).1 + (zref b d).2)
    (hz : ∀ b d, e.loc = .ptr b d → (e.atAddr sem σ (zbase sem σ zk + x)).isSome → (zref b d).1 = zk) :
    e.atAddr sem σ (zbase sem σ zk + x) = e.atZone sem σ zk x := by
  cases hl : e.loc with
  | reg n s => simp [Entry.atAddr, Entry.atZone, hl]
  | ptr b d =>
    have hw' := hw b d hl
    by_cases hk : (zref b d).1 = zk
    · unfold Entry.atAddr Entry.atZone
      simp only [hl, hk, true_and]
      rw [hw', hk]
      have e1 : (zbase sem σ zk + (zref b d).2 ≤ zbase sem σ zk + x ∧
          zbase sem σ zk + x < zbase sem σ zk + (zref b d).2 + (nbytes e.val : Int)) ↔
          ((zref b d).2 ≤ x ∧ x < (zref b d).2 + (nbytes e.val : Int)) := by omega
      by_cases hc : (zref b d).2 ≤ x ∧ x < (zref b d).2 + (nbytes e.val : Int)
      · rw [if_pos (e1.mpr hc), if_pos hc]
        congr 3; omega
      · rw [if_neg (fun h => hc (e1.mp h)), if_neg hc]
    · have hnone : e.atAddr sem σ (zbase sem σ zk + x) = none := by
        cases h : e.atAddr sem σ (zbase sem σ zk + x) with
        | none => rfl
        | some v => exact absurd (hz b d hl (by rw [h]; rfl)) hk
      rw [hnone]
      unfold Entry.atZone
      simp [hl, hk]

theorem lastAddr_eq_lastZ (es : List Entry) (zk : ZK) (x : Int)
    (hw : ∀ e ∈ es, ∀ b d, e.loc = .ptr b d → locAddr sem σ b d = zbase sem σ (zref b d).1 + (zref b d).2)
    (hz : ∀ e ∈ es, ∀ b d, e.loc = .ptr b d → (e.atAddr sem σ (zbase sem σ zk + x)).isSome → (zref b d).1 = zk) :
    lastAddr sem σ es (zbase sem σ zk + x) = lastZ sem σ es zk x := by
  induction es with
  | nil => rfl
  | cons e rest ih =>
    simp only [lastAddr, lastZ]
    rw [ih (fun e' he' => hw e' (List.mem_cons_of_mem _ he')) (fun e' he' => hz e' (List.mem_cons_of_mem _ he')),
      atAddr_eq_atZone sem σ e zk x (hw e List.mem_cons_self) (hz e List.mem_cons_self)]

/-! ### removing the item of a location, changing register items -/

theorem lastAddr_filter (es : List Entry) (l : Loc) (x : Int)
    (h : ∀ e ∈ es, e.loc = l → e.atAddr sem σ x = none) :
    lastAddr sem σ (es.filter (fun e => e.loc != l)) x = lastAddr sem σ es x := by
  induction es with
  | nil => rfl
  | cons e rest ih =>
    have ih' := ih (fun e' he' => h e' (List.mem_cons_of_mem _ he'))
    by_cases hl : e.loc = l
    · have : (e.loc != l) = false := by simp [hl]
      simp only [List.filter_cons, this, lastAddr, ih', Bool.false_eq_true, if_false]
      rw [h e List.mem_cons_self hl]; simp
    · have : (e.loc != l) = true := by simp [hl]
      simp only [List.filter_cons, this, lastAddr, ih', if_true]

theorem lastZ_filter (es : List Entry) (l : Loc) (zk : ZK) (x : Int)
    (h : ∀ e ∈ es, e.loc = l → e.atZone sem σ zk x = none) :
    lastZ sem σ (es.filter (fun e => e.loc != l)) zk x = lastZ sem σ es zk x := by
  induction es with
  | nil => rfl
  | cons e rest ih =>
    have ih' := ih (fun e' he' => h e' (List.mem_cons_of_mem _ he'))
    by_cases hl : e.loc = l
    · have : (e.loc != l) = false := by simp [hl]
      simp only [List.filter_cons, this, lastZ, ih', Bool.false_eq_true, if_false]
      rw [h e List.mem_cons_self hl]; simp
    · have : (e.loc != l) = true := by simp [hl]
      simp only [List.filter_cons, this, lastZ, ih', if_true]

/-- the pointer items of a list -/
def ptrsOf (es : List Entry) : List Entry := es.filter (fun e => e.loc.isPtr)

theorem lastAddr_ptrsOf (es : List Entry) (x : Int) : lastAddr sem σ (ptrsOf es) x = lastAddr sem σ es x := by
  induction es with
  | nil => rfl
  | cons e rest ih =>
    unfold ptrsOf at ih ⊢
    cases hl : e.loc with
    | reg n s =>
      have : e.atAddr sem σ x = none := by simp [Entry.atAddr, hl]
      have hp : e.loc.isPtr = false := by rw [hl]; rfl
      simp only [List.filter_cons, hp, lastAddr, ih, this, Bool.false_eq_true, if_false]
      simp
    | ptr b d =>
      have hp : e.loc.isPtr = true := by rw [hl]; rfl
      simp only [List.filter_cons, hp, lastAddr, ih, if_true]

theorem lastZ_ptrsOf (es : List Entry) (zk : ZK) (x : Int) : lastZ sem σ (ptrsOf es) zk x = lastZ sem σ es zk x := by
  induction es with
  | nil => rfl
  | cons e rest ih =>
    unfold ptrsOf at ih ⊢
    cases hl : e.loc with
    | reg n s =>
      have : e.atZone sem σ zk x = none := by simp [Entry.atZone, hl]
      have hp : e.loc.isPtr = false := by rw [hl]; rfl
      simp only [List.filter_cons, hp, lastZ, ih, this, Bool.false_eq_true, if_false]
      simp
    | ptr b d =>
      have hp : e.loc.isPtr = true := by rw [hl]; rfl
      simp only [List.filter_cons, hp, lastZ, ih, if_true]

theorem replayEntries_ptrsOf (es : List Entry) (μ : Int → Nat) :
    replayEntries sem σ μ (ptrsOf es) = replayEntries sem σ μ es := by
  funext x
  rw [replayEntries_eq, replayEntries_eq, lastAddr_ptrsOf]

theorem ptrsOf_map_reg (es : List Entry) (n : String) (s : Nat) (v : E) :
    ptrsOf (es.map (fun e => if e.loc = .reg n s then { e with val := v } else e)) = ptrsOf es := by
  unfold ptrsOf
  induction es with
  | nil => rfl
  | cons e rest ih =>
    simp only [List.map_cons, List.filter_cons]
    by_cases hl : e.loc = .reg n s
    · have hp : e.loc.isPtr = false := by rw [hl]; rfl
      simp only [hl, if_true, hp, Bool.false_eq_true, if_false]
      have hp2 : (Loc.reg n s).isPtr = false := rfl
      simp only [hp2, Bool.false_eq_true, if_false]
      exact ih
    · simp only [hl, if_false]
      rw [ih]

/-- `dict[reg] = v` does not touch the pointer items -/
theorem ptrsOf_setEntry (es : List Entry) (n : String) (s : Nat) (v : E) :
    ptrsOf (setEntry es (.reg n s) v) = ptrsOf es := by
  unfold setEntry
  split
  · exact ptrsOf_map_reg es n s v
  · unfold ptrsOf
    simp [List.filter_append, Loc.isPtr]

end Amoco.Mapper
