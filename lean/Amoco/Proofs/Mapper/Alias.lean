/-
  Amoco.Proofs.Mapper.Alias — what `aliasing(k)` establishes, and facts about accesses
  (`noWrap`, `apart`, sub-accesses).
-/
import Amoco.Proofs.Mapper.Trace

set_option linter.unusedSimpArgs false
set_option linter.unusedVariables false

namespace Amoco.Mapper

variable (sem : OpSem) (σ : St)

/-! ### lists -/

theorem ptrsOf_append (l1 l2 : List Entry) : ptrsOf (l1 ++ l2) = ptrsOf l1 ++ ptrsOf l2 := by
  simp [ptrsOf, List.filter_append]

theorem ptrsOf_take (es : List Entry) (n : Nat)
    (h : ∀ i (hi : i < es.length), (es[i]).loc.isPtr = true → i < n) : ptrsOf (es.take n) = ptrsOf es := by
  conv => rhs; rw [← List.take_append_drop n es]
  rw [ptrsOf_append]
  have : ptrsOf (es.drop n) = [] := by
    unfold ptrsOf
    rw [List.filter_eq_nil_iff]
    intro e he hp
    obtain ⟨j, hj, rfl⟩ := List.getElem_of_mem he
    rw [List.getElem_drop] at hp
    have hlt : n + j < es.length := by
      rw [List.length_drop] at hj; omega
    have := h (n + j) hlt hp
    omega
  rw [this, List.append_nil]

/-! ### `aliasing` -/

theorem aliasing_cases (cfg : Cfg) (m : MapSt) (b : E) (d : Int) (size : Nat) :
    aliasing cfg m b d size = 0 ∨ aliasing cfg m b d size = m.lastw := by
  unfold aliasing
  by_cases h1 : cfg.noaliasing = true
  · left; rw [if_pos h1]
  · rw [if_neg h1]
    by_cases h2 : ((m.entries.take m.lastw).drop (aliasStart m b d size)).any (Entry.otherBase b) = true
    · right; rw [if_pos h2]
    · left; rw [if_neg h2]

/-- `aliasing` = 0 (with aliasing possible): every pointer item is through the same base, or the location
    has an item at least as wide as the read, followed only by items through the same base. -/
theorem aliasing_zero (cfg : Cfg) (m : MapSt) (b : E) (d : Int) (size : Nat)
    (hna : cfg.noaliasing = false) (h0 : aliasing cfg m b d size = 0)
    (hlw : ∀ i (hi : i < m.entries.length), (m.entries[i]).loc.isPtr = true → i < m.lastw) :
    (∀ e ∈ m.entries, ∀ b' d', e.loc = .ptr b' d' → b' = b) ∨
    (∃ pre e post, m.entries = pre ++ e :: post ∧ e.loc = .ptr b d ∧ size ≤ e.val.size ∧
      ∀ e' ∈ post, ∀ b' d', e'.loc = .ptr b' d' → b' = b) := by
  -- the scanned range contains no item through another base
  have hscan : (((m.entries.take m.lastw).drop (aliasStart m b d size)).any (Entry.otherBase b)) = false := by
    cases hany : (((m.entries.take m.lastw).drop (aliasStart m b d size)).any (Entry.otherBase b)) with
    | false => rfl
    | true =>
      exfalso
      unfold aliasing at h0
      rw [hna] at h0
      simp only [Bool.false_eq_true, if_false] at h0
      rw [if_pos hany] at h0
      -- some pointer item exists, so lastw > 0
      obtain ⟨e, he, hob⟩ := List.any_eq_true.mp hany
      have he' : e ∈ m.entries := List.mem_of_mem_take (List.mem_of_mem_drop he)
      have hp : e.loc.isPtr = true := by
        unfold Entry.otherBase at hob
        cases hl : e.loc with
        | ptr _ _ => rfl
        | reg _ _ => rw [hl] at hob; simp at hob
      obtain ⟨j, hj, rfl⟩ := List.getElem_of_mem he'
      have := hlw j hj hp
      omega
  have hfrom : ∀ j (hj : j < m.entries.length), aliasStart m b d size ≤ j →
      ∀ b' d', (m.entries[j]).loc = .ptr b' d' → b' = b := by
    intro j hj hsj b' d' hl
    have hp : (m.entries[j]).loc.isPtr = true := by rw [hl]; rfl
    have hjn := hlw j hj hp
    have hmem : m.entries[j] ∈ (m.entries.take m.lastw).drop (aliasStart m b d size) := by
      rw [List.mem_iff_getElem]
      refine ⟨j - aliasStart m b d size, ?_, ?_⟩
      · rw [List.length_drop, List.length_take]; omega
      · rw [List.getElem_drop, List.getElem_take]
        congr 1; omega
    have := List.any_eq_false.mp hscan _ hmem
    unfold Entry.otherBase at this
    rw [hl] at this
    simpa using this
  cases hidx : m.entries.findIdx? (fun e => e.loc = .ptr b d) with
  | none =>
    left
    have hst : aliasStart m b d size = 0 := by unfold aliasStart; rw [hidx]
    intro e he b' d' hl
    obtain ⟨j, hj, rfl⟩ := List.getElem_of_mem he
    exact hfrom j hj (by omega) b' d' hl
  | some i =>
    obtain ⟨hilt, hpi, _⟩ := List.findIdx?_eq_some_iff_getElem.mp hidx
    have hgd : m.entries.getD i default = m.entries[i] := by
      rw [List.getD_eq_getElem?_getD, List.getElem?_eq_getElem hilt]; rfl
    by_cases hsz : (m.entries[i]).val.size < size
    · left
      have hst : aliasStart m b d size = 0 := by
        unfold aliasStart; rw [hidx]; simp only; rw [hgd, if_pos hsz]
      intro e he b' d' hl
      obtain ⟨j, hj, rfl⟩ := List.getElem_of_mem he
      exact hfrom j hj (by omega) b' d' hl
    · right
      have hst : aliasStart m b d size = i + 1 := by
        unfold aliasStart; rw [hidx]; simp only; rw [hgd, if_neg hsz]
      refine ⟨m.entries.take i, m.entries[i], m.entries.drop (i + 1), ?_, of_decide_eq_true hpi, by omega, ?_⟩
      · rw [List.getElem_cons_drop, List.take_append_drop]
      · intro e' he' b' d' hl
        obtain ⟨j, hj, rfl⟩ := List.getElem_of_mem he'
        rw [List.getElem_drop] at hl
        have hlt : i + 1 + j < m.entries.length := by rw [List.length_drop] at hj; omega
        exact hfrom (i + 1 + j) hlt (by omega) b' d' hl

/-! ### accesses -/

theorem locAddr_cst (c s : Nat) (d : Int) : locAddr sem σ (.cst c s) d = ((zref (.cst c s) d).2) := by
  unfold locAddr addrOf zref
  simp only [ideal, E.size]
  congr 1
  unfold wrap
  have e : ((c % 2 ^ s : Nat) : Int) = (c : Int) % ((2 ^ s : Nat) : Int) := by exact_mod_cast rfl
  rw [e, Int.emod_add_emod]

theorem locAddr_nonneg (b : E) (d : Int) : 0 ≤ locAddr sem σ b d := by
  unfold locAddr addrOf; omega

theorem locAddr_lt (b : E) (d : Int) : locAddr sem σ b d < ((2 ^ b.size : Nat) : Int) := by
  unfold locAddr addrOf
  exact_mod_cast wrap_lt _ _

/-- moving the displacement by `j` inside an access that does not wrap moves address and zone offset by `j` -/
theorem sub_access (b : E) (d : Int) (n j : Nat) (hw : (⟨b, d, n⟩ : Access).noWrap sem σ) (hj : j < n) :
    locAddr sem σ b (d + (j : Int)) = locAddr sem σ b d + (j : Int) ∧
    zref b (d + (j : Int)) = ((zref b d).1, (zref b d).2 + (j : Int)) := by
  obtain ⟨h1, h2⟩ := hw
  simp only at h1 h2
  have hA : locAddr sem σ b d = zbase sem σ (zref b d).1 + (zref b d).2 := h1
  have hlt : locAddr sem σ b d + (j : Int) < ((2 ^ b.size : Nat) : Int) := by
    have : ((2 ^ b.size : Nat) : Int) = (2 : Int) ^ b.size := by push_cast; rfl
    rw [hA, this]; omega
  have hnn := locAddr_nonneg sem σ b d
  have hloc : locAddr sem σ b (d + (j : Int)) = locAddr sem σ b d + (j : Int) := by
    unfold locAddr addrOf at *
    rw [← Int.add_assoc, ← wrap_wrap_add]
    exact wrap_of_range _ _ (by omega) hlt
  refine ⟨hloc, ?_⟩
  cases b with
  | cst c s =>
    have e1 := locAddr_cst sem σ c s (d + (j : Int))
    have e2 := locAddr_cst sem σ c s d
    rw [hloc, e2] at e1
    simp only [zref] at e1 ⊢
    rw [← e1]
  | reg _ _ => rfl
  | slc _ _ _ => rfl
  | cat _ _ => rfl
  | addc _ _ => rfl
  | op _ _ _ _ => rfl
  | load _ _ _ _ _ => rfl

theorem sub_noWrap (b : E) (d : Int) (n j n' : Nat) (hw : (⟨b, d, n⟩ : Access).noWrap sem σ) (hj : j + n' ≤ n)
    (hn' : 0 < n') : (⟨b, d + (j : Int), n'⟩ : Access).noWrap sem σ := by
  obtain ⟨hl, hz⟩ := sub_access sem σ b d n j hw (by omega)
  obtain ⟨h1, h2⟩ := hw
  simp only at h1 h2
  constructor
  · simp only
    have : addrOf b.size (ideal sem σ b) (d + (j : Int)) = locAddr sem σ b (d + (j : Int)) := rfl
    rw [this, hl, hz]
    simp only
    have : locAddr sem σ b d = addrOf b.size (ideal sem σ b) d := rfl
    rw [this, h1]; omega
  · simp only [hz]
    omega

theorem sub_apart (b : E) (d : Int) (n j n' : Nat) (c : Access) (hw : (⟨b, d, n⟩ : Access).noWrap sem σ)
    (hj : j + n' ≤ n) (hn' : 0 < n') (ha : Access.apart sem σ ⟨b, d, n⟩ c) :
    Access.apart sem σ ⟨b, d + (j : Int), n'⟩ c := by
  obtain ⟨hl, hz⟩ := sub_access sem σ b d n j hw (by omega)
  unfold Access.apart at ha ⊢
  simp only at ha ⊢
  rcases ha with h | h
  · left; rw [hz]; exact h
  · right
    have e : addrOf b.size (ideal sem σ b) (d + (j : Int)) = addrOf b.size (ideal sem σ b) d + (j : Int) := hl
    rw [e]
    omega

theorem apart_symm (a c : Access) (h : Access.apart sem σ a c) : Access.apart sem σ c a := by
  unfold Access.apart at h ⊢
  rcases h with h | h | h
  · left; exact h.symm
  · right; right; exact h
  · right; left; exact h

end Amoco.Mapper
