/-
  Amoco.Proofs.Mapper.Steps — `__setitem__` preserves the invariant: register branch (`setReg`) and pointer
  branch (`setPtr`: partial-overwrite composition with read-back, delete-then-reinsert, `lastw`).
-/
import Amoco.Proofs.Mapper.Inv

set_option linter.unusedSimpArgs false
set_option linter.unusedVariables false

namespace Amoco.Mapper

variable {c : Ctx}

/-! ### bytes of a composition -/

theorem byte_cat (a b p j : Nat) (ha : a < 2 ^ (8 * p)) :
    ((a + b * 2 ^ (8 * p)) >>> (8 * j)) % 256 =
      if j < p then (a >>> (8 * j)) % 256 else (b >>> (8 * (j - p))) % 256 := by
  rw [Nat.shiftRight_eq_div_pow]
  split
  · rename_i hj
    have e : 2 ^ (8 * p) = 2 ^ (8 * j) * (256 * 2 ^ (8 * (p - j - 1))) := by
      rw [show (256 : Nat) = 2 ^ 8 by decide, ← Nat.pow_add, ← Nat.pow_add]
      congr 1; omega
    rw [e, ← Nat.mul_assoc, Nat.mul_comm b, Nat.mul_assoc, Nat.add_mul_div_left _ _ (Nat.two_pow_pos _)]
    rw [Nat.shiftRight_eq_div_pow, ← Nat.mul_assoc, Nat.mul_comm b 256, Nat.mul_assoc, Nat.add_mul_mod_self_left]
  · rename_i hj
    have e : 2 ^ (8 * j) = 2 ^ (8 * p) * 2 ^ (8 * (j - p)) := by
      rw [← Nat.pow_add]; congr 1; omega
    rw [e, ← Nat.div_div_eq_div_mul, Nat.add_mul_div_right _ _ (Nat.two_pow_pos _), Nat.div_eq_of_lt ha,
      Nat.zero_add, Nat.shiftRight_eq_div_pow]

theorem nbytes_mkCat (a b : E) (ha : 8 * nbytes a = a.size) (hb : 8 * nbytes b = b.size) :
    nbytes (mkCat a b) = nbytes a + nbytes b ∧ 8 * nbytes (mkCat a b) = (mkCat a b).size := by
  unfold nbytes at *
  rw [size_mkCat]
  omega

/-! ### lookups -/

theorem lookup_filter_ne (es : List Entry) (l l' : Loc) (h : l' ≠ l) :
    (es.filter (fun e => e.loc != l)).find? (fun e => e.loc = l') = es.find? (fun e => e.loc = l') := by
  induction es with
  | nil => rfl
  | cons e rest ih =>
    by_cases h1 : e.loc = l
    · have : (e.loc != l) = false := by simp [h1]
      have h2 : ¬ e.loc = l' := fun x => h (x.symm.trans h1)
      simp only [List.filter_cons, this, Bool.false_eq_true, if_false, List.find?_cons, h2, decide_false, ih]
    · have : (e.loc != l) = true := by simp [h1]
      simp only [List.filter_cons, this, if_true, List.find?_cons, ih]

theorem find_append_ne (es : List Entry) (e : Entry) (l' : Loc) (h : e.loc ≠ l') :
    (es ++ [e]).find? (fun x => x.loc = l') = es.find? (fun x => x.loc = l') := by
  rw [List.find?_append]
  cases es.find? (fun x => decide (x.loc = l')) with
  | some v => rfl
  | none => simp [h]

/-- the value `R` finds after `dict[reg(n,s)] = v` -/
theorem find_setEntry (es : List Entry) (n : String) (s : Nat) (v : E) (l' : Loc) :
    ((setEntry es (.reg n s) v).find? (fun x => x.loc = l')).map Entry.val =
      if l' = .reg n s then some v else (es.find? (fun x => x.loc = l')).map Entry.val := by
  unfold setEntry
  split
  · rename_i hany
    induction es with
    | nil => simp at hany
    | cons e rest ih =>
      simp only [List.map_cons, List.find?_cons]
      by_cases h1 : e.loc = .reg n s
      · simp only [h1, if_true]
        by_cases h2 : l' = .reg n s
        · simp [h2]
        · have : ¬ Loc.reg n s = l' := fun x => h2 x.symm
          simp only [this, decide_false, h2, if_false]
          by_cases hr : rest.any (fun e => e.loc = .reg n s)
          · have := ih hr
            simpa [h2] using this
          · have hid : rest.map (fun e => if e.loc = .reg n s then { e with val := v } else e) = rest := by
              have : rest.map (fun e => if e.loc = .reg n s then { e with val := v } else e) = rest.map id := by
                apply List.map_congr_left
                intro x hx
                have : ¬ x.loc = .reg n s := by
                  intro e'; apply hr
                  simp only [List.any_eq_true, decide_eq_true_eq]; exact ⟨x, hx, e'⟩
                simp [this]
              rw [this, List.map_id]
            rw [hid]
      · simp only [h1, if_false]
        by_cases h3 : e.loc = l'
        · have h2 : ¬ l' = .reg n s := fun x => h1 (h3.trans x)
          simp [h3, h2]
        · simp only [h3, decide_false]
          have hr : rest.any (fun e => e.loc = .reg n s) := by
            simp only [List.any_cons, Bool.or_eq_true, decide_eq_true_eq] at hany
            rcases hany with h | h
            · exact absurd h h1
            · exact h
          exact ih hr
  · rename_i hany
    rw [List.find?_append]
    by_cases h2 : l' = .reg n s
    · subst h2
      have : es.find? (fun x => decide (x.loc = .reg n s)) = none := by
        rw [List.find?_eq_none]
        intro x hx hd
        apply hany
        simp only [List.any_eq_true]
        exact ⟨x, hx, hd⟩
      simp [this]
    · have : ¬ Loc.reg n s = l' := fun x => h2 x.symm
      simp only [h2, if_false]
      cases es.find? (fun x => decide (x.loc = l')) with
      | some kz => simp
      | none => simp [this]

theorem R_eq (m : MapSt) (n : String) (s : Nat) :
    m.R n s = ((m.entries.find? (fun e => e.loc = .reg n s)).map Entry.val).getD (.reg n s) := by
  unfold MapSt.R MapSt.lookup
  cases m.entries.find? (fun e => decide (e.loc = .reg n s)) <;> rfl

theorem R_setReg (m : MapSt) (n : String) (rs pos size : Nat) (v : E) (n' : String) (s' : Nat) :
    (m.setReg n rs pos size v).R n' s' =
      if n' = n ∧ s' = rs then splice (m.R n rs) rs pos size v else m.R n' s' := by
  rw [R_eq]
  simp only [MapSt.setReg]
  rw [find_setEntry]
  by_cases h : n' = n ∧ s' = rs
  · obtain ⟨h1, h2⟩ := h
    subst h1 h2
    simp
  · have : ¬ Loc.reg n' s' = Loc.reg n rs := by
      intro e; cases e; exact h ⟨rfl, rfl⟩
    simp only [this, h, if_false]
    exact (R_eq m n' s').symm

/-! ### the register branch -/

theorem setEntry_mem (es : List Entry) (l : Loc) (v : E) (e : Entry) (he : e ∈ setEntry es l v) :
    (e.loc = l ∧ e.val = v ∧ (e.be = false ∨ ∃ e0 ∈ es, e0.loc = l ∧ e.be = e0.be)) ∨ (e ∈ es ∧ e.loc ≠ l) := by
  unfold setEntry at he
  split at he
  · obtain ⟨e0, he0, rfl⟩ := List.mem_map.mp he
    by_cases h : e0.loc = l
    · left; rw [if_pos h]; exact ⟨h, rfl, Or.inr ⟨e0, he0, h, rfl⟩⟩
    · right; rw [if_neg h]; exact ⟨he0, h⟩
  · rename_i hany
    rcases List.mem_append.mp he with h | h
    · right
      refine ⟨h, ?_⟩
      intro hl; apply hany
      simp only [List.any_eq_true, decide_eq_true_eq]; exact ⟨e, h, hl⟩
    · left
      simp only [List.mem_singleton] at h
      subst h; exact ⟨rfl, rfl, Or.inl rfl⟩

theorem setEntry_locs (es : List Entry) (l : Loc) (v : E) :
    (setEntry es l v).map Entry.loc = if es.any (fun e => e.loc = l) then es.map Entry.loc else es.map Entry.loc ++ [l] := by
  unfold setEntry
  split
  · rw [List.map_map]
    apply List.map_congr_left
    intro e _
    simp only [Function.comp]
    split <;> rfl
  · simp

theorem setEntry_getElem_isPtr (es : List Entry) (n : String) (s : Nat) (v : E) (i : Nat)
    (hi : i < (setEntry es (.reg n s) v).length) (hp : ((setEntry es (.reg n s) v)[i]).loc.isPtr = true) :
    ∃ hi' : i < es.length, (es[i]).loc.isPtr = true := by
  have hl := setEntry_locs es (.reg n s) v
  have hloc : ((setEntry es (.reg n s) v)[i]).loc = ((setEntry es (.reg n s) v).map Entry.loc)[i]'(by simpa using hi) := by
    simp
  split at hl
  · have hlen : (setEntry es (.reg n s) v).length = es.length := by
      have := congrArg List.length hl; simpa using this
    refine ⟨by omega, ?_⟩
    rw [hloc] at hp
    simp only [hl] at hp
    simpa using hp
  · have hlen : (setEntry es (.reg n s) v).length = es.length + 1 := by
      have := congrArg List.length hl; simpa using this
    rw [hloc] at hp
    simp only [hl] at hp
    by_cases hlt : i < es.length
    · refine ⟨hlt, ?_⟩
      rw [List.getElem_append_left (by simpa using hlt)] at hp
      simpa using hp
    · have : i = es.length := by omega
      subst this
      rw [List.getElem_append_right (by simp)] at hp
      simp [Loc.isPtr] at hp

theorem SInv.setReg {bg} {m : MapSt} (h : SInv c bg m) (n : String) (rs pos size : Nat) (v : E)
    (hv : v.size = size) (hps : pos + size ≤ rs) : SInv c bg (m.setReg n rs pos size v) := by
  have hsz : (splice (m.R n rs) rs pos size v).size = rs := size_splice _ _ _ _ _ (h.R_size n rs) hv hps
  have hptrs : ptrsOf (m.setReg n rs pos size v).entries = ptrsOf m.entries := ptrsOf_setEntry _ _ _ _
  refine ⟨h.zwf, h.atoms, ?_, ?_, ?_, ?_, ?_⟩
  · intro i hi hp
    obtain ⟨hi', hp'⟩ := setEntry_getElem_isPtr _ _ _ _ i hi hp
    exact h.lastw i hi' hp'
  · simp only [MapSt.setReg]
    rw [setEntry_locs]
    split
    · exact h.nodup
    · rename_i hany
      rw [List.nodup_append]
      refine ⟨h.nodup, by simp, ?_⟩
      intro a ha b hb
      simp only [List.mem_singleton] at hb
      subst hb
      intro e; subst e
      apply hany
      obtain ⟨e0, he0, hl0⟩ := List.mem_map.mp ha
      simp only [List.any_eq_true, decide_eq_true_eq]; exact ⟨e0, he0, hl0⟩
  · intro e he n' s' hl
    rcases setEntry_mem _ _ _ _ he with ⟨h1, h2, h3⟩ | ⟨h1, _⟩
    · rw [h1] at hl; cases hl
      refine ⟨by rw [h2]; exact hsz, ?_⟩
      rcases h3 with h3 | ⟨e0, he0, hl0, hbe⟩
      · exact h3
      · rw [hbe]; exact (h.regsz e0 he0 n rs hl0).2
    · exact h.regsz e h1 n' s' hl
  · intro e he b d hl
    rcases setEntry_mem _ _ _ _ he with ⟨h1, _, _⟩ | ⟨h1, _⟩
    · rw [h1] at hl; cases hl
    · exact h.pent e h1 b d hl
  · intro zk x
    have : zbyte c.sem c.σ (m.setReg n rs pos size v) zk x = zbyte c.sem c.σ m zk x := rfl
    rw [this, h.zone, ← lastZ_ptrsOf, ← hptrs, lastZ_ptrsOf]

theorem spliceVal_mod (old rs pos size v : Nat) (h : pos + size ≤ rs) :
    spliceVal (old % 2 ^ rs) rs pos size v = spliceVal old rs pos size v := by
  unfold spliceVal
  rw [Nat.mod_mod]
  congr 2
  exact Nat.mod_mod_of_dvd _ (Nat.pow_dvd_pow 2 (by omega))

theorem Inv.setReg {μt ρt} {m : MapSt} (h : Inv c μt ρt m) (n : String) (rs pos size : Nat) (v : E)
    (hv : v.size = size) (hps : pos + size ≤ rs) :
    Inv c μt (fun n' s' => if n' = n ∧ s' = rs then spliceVal (ρt n rs) rs pos size (ideal c.sem c.σ v) else ρt n' s')
      (m.setReg n rs pos size v) := by
  refine ⟨h.s.setReg n rs pos size v hv hps, ?_, ?_⟩
  · intro n' s'
    rw [R_setReg]
    by_cases hc : n' = n ∧ s' = rs
    · simp only [hc, and_self, if_true]
      rw [ideal_splice _ _ _ _ _ _ _ (h.s.R_size n rs) hv hps, h.regs, spliceVal_mod _ _ _ _ _ hps]
      exact (Nat.mod_eq_of_lt (spliceVal_lt _ _ _ _ _ hps)).symm
    · simp only [hc, if_false]
      exact h.regs n' s'
  · intro x
    have hptrs : ptrsOf (m.setReg n rs pos size v).entries = ptrsOf m.entries := ptrsOf_setEntry _ _ _ _
    rw [← replayEntries_ptrsOf, hptrs, replayEntries_ptrsOf]
    exact h.mem x

end Amoco.Mapper
