/-
  Amoco.Proofs.Mapper.Bytes — byte-level arithmetic for the mapper proofs (C02, C09):
  little-endian assembly of byte lists (`leVal`), `readN` / `writeN` / `byteAt`, `wrap`.
-/
import Amoco.Model.Mapper

set_option linter.unusedSimpArgs false
set_option linter.unusedVariables false

namespace Amoco.Mapper

/-- little-endian value of a list of bytes (each read modulo 256) -/
def leVal : List Nat → Nat
  | [] => 0
  | b :: bs => b % 256 + 256 * leVal bs

theorem leVal_lt : ∀ (l : List Nat), leVal l < 256 ^ l.length
  | [] => by simp [leVal]
  | b :: bs => by
    have ih := leVal_lt bs
    simp only [leVal, List.length_cons, Nat.pow_succ]
    have : b % 256 < 256 := Nat.mod_lt _ (by decide)
    omega

theorem leVal_append (l1 l2 : List Nat) : leVal (l1 ++ l2) = leVal l1 + 256 ^ l1.length * leVal l2 := by
  induction l1 with
  | nil => simp [leVal]
  | cons b bs ih =>
    simp only [List.cons_append, leVal, ih, List.length_cons, Nat.pow_succ]
    rw [Nat.mul_add, ← Nat.mul_assoc, Nat.mul_comm 256 (256 ^ bs.length)]
    omega

theorem leVal_congr (l1 l2 : List Nat) (hl : l1.length = l2.length)
    (h : ∀ i (h1 : i < l1.length), l1[i] % 256 = (l2[i]'(hl ▸ h1)) % 256) : leVal l1 = leVal l2 := by
  induction l1 generalizing l2 with
  | nil => cases l2 with
    | nil => rfl
    | cons _ _ => simp at hl
  | cons b bs ih =>
    cases l2 with
    | nil => simp at hl
    | cons c cs =>
      simp only [leVal]
      have h0 := h 0 (by simp)
      simp only [List.getElem_cons_zero] at h0
      rw [h0, ih cs (by simpa using hl)]
      intro i h1
      have := h (i + 1) (by simp; omega)
      simpa using this

/-- byte `i` of `leVal l` -/
theorem leVal_byte : ∀ (l : List Nat) (i : Nat) (h : i < l.length), (leVal l >>> (8 * i)) % 256 = l[i] % 256
  | [], i, h => by simp at h
  | b :: bs, 0, _ => by
    simp only [leVal, Nat.mul_zero, Nat.shiftRight_zero, List.getElem_cons_zero]
    omega
  | b :: bs, i + 1, h => by
    have ih := leVal_byte bs i (by simpa using h)
    simp only [leVal, List.getElem_cons_succ]
    rw [← ih, Nat.shiftRight_eq_div_pow, Nat.shiftRight_eq_div_pow]
    have e : 2 ^ (8 * (i + 1)) = 256 * 2 ^ (8 * i) := by
      rw [Nat.mul_add, Nat.pow_add]; simp [Nat.mul_comm]
    rw [e, ← Nat.div_div_eq_div_mul]
    have : (b % 256 + 256 * leVal bs) / 256 = leVal bs := by
      have : b % 256 < 256 := Nat.mod_lt _ (by decide)
      omega
    rw [this]

/-- a value below `256^n` is the little-endian assembly of its bytes -/
theorem leVal_bytes_of (n v : Nat) (hv : v < 256 ^ n) :
    leVal ((List.range n).map (fun k => (v >>> (8 * k)) % 256)) = v := by
  induction n generalizing v with
  | zero => simp [leVal] at hv ⊢; omega
  | succ n ih =>
    rw [List.range_succ_eq_map, List.map_cons, List.map_map]
    simp only [leVal, Nat.mul_zero, Nat.shiftRight_zero, Nat.mod_mod]
    have hq : v / 256 < 256 ^ n := by
      rw [Nat.pow_succ] at hv
      exact Nat.div_lt_of_lt_mul (by rw [Nat.mul_comm]; exact hv)
    have := ih (v / 256) hq
    have e : (List.range n).map ((fun k => (v >>> (8 * k)) % 256) ∘ Nat.succ)
        = (List.range n).map (fun k => ((v / 256) >>> (8 * k)) % 256) := by
      apply List.map_congr_left
      intro k _
      simp only [Function.comp, Nat.succ_eq_add_one]
      rw [Nat.shiftRight_eq_div_pow, Nat.shiftRight_eq_div_pow, Nat.div_div_eq_div_mul]
      congr 2
      rw [Nat.mul_add, Nat.pow_add]; simp [Nat.mul_comm]
    rw [e, this]
    omega

/-! ### readN -/

theorem readN_le (μ : Int → Nat) (a : Int) (n : Nat) :
    readN μ a n false = leVal ((List.range n).map (fun (k : Nat) => μ (a + (k : Int)))) := by
  induction n generalizing a with
  | zero => simp [readN, leVal]
  | succ n ih =>
    rw [List.range_succ_eq_map, List.map_cons, List.map_map]
    simp only [readN, leVal]
    rw [ih (a + 1)]
    have e0 : a + ((0 : Nat) : Int) = a := by omega
    rw [e0]
    congr 3
    apply List.map_congr_left
    intro k _
    simp only [Function.comp, Nat.succ_eq_add_one]
    congr 1; omega

theorem readN_be (μ : Int → Nat) (a : Int) (n : Nat) :
    readN μ a n true = leVal (((List.range n).map (fun (k : Nat) => μ (a + (k : Int)))).reverse) := by
  induction n with
  | zero => simp [readN, leVal]
  | succ n ih =>
    rw [List.range_succ, List.map_append, List.reverse_append]
    simp only [List.map_cons, List.map_nil, List.reverse_cons, List.reverse_nil, List.nil_append,
      List.cons_append, leVal, readN, ih]
    omega

/-- the bytes read, in memory order -/
def memList (μ : Int → Nat) (a : Int) (n : Nat) : List Nat := (List.range n).map (fun (k : Nat) => μ (a + (k : Int)))

theorem memList_length (μ : Int → Nat) (a : Int) (n : Nat) : (memList μ a n).length = n := by simp [memList]

theorem readN_eq (μ : Int → Nat) (a : Int) (n : Nat) (be : Bool) :
    readN μ a n be = leVal (if be then (memList μ a n).reverse else memList μ a n) := by
  cases be
  · simp [readN_le, memList]
  · simp [readN_be, memList]

theorem readN_lt (μ : Int → Nat) (a : Int) (n : Nat) (be : Bool) : readN μ a n be < 256 ^ n := by
  rw [readN_eq]
  have := leVal_lt (if be then (memList μ a n).reverse else memList μ a n)
  cases be <;> simpa [memList_length] using this

theorem readN_congr (μ μ' : Int → Nat) (a : Int) (n : Nat) (be : Bool)
    (h : ∀ k : Nat, k < n → μ (a + (k : Int)) % 256 = μ' (a + (k : Int)) % 256) :
    readN μ a n be = readN μ' a n be := by
  rw [readN_eq, readN_eq]
  cases be
  · simp only [Bool.false_eq_true, if_false]
    apply leVal_congr _ _ (by simp [memList_length])
    intro i h1
    simp only [memList, List.getElem_map, List.getElem_range]
    exact h i (by simpa [memList_length] using h1)
  · simp only [if_true]
    apply leVal_congr _ _ (by simp [memList_length])
    intro i h1
    have hi : i < n := by simpa [memList_length] using h1
    simp only [List.getElem_reverse, memList, List.getElem_map, List.getElem_range, List.length_map, List.length_range]
    exact h (n - 1 - i) (by omega)

/-- byte `j` (memory order) of what was read is the byte at `a + j` -/
theorem byteAt_readN (μ : Int → Nat) (a : Int) (n j : Nat) (be : Bool) (hj : j < n) :
    byteAt (readN μ a n be) n j be = μ (a + (j : Int)) % 256 := by
  rw [readN_eq]
  cases be
  · simp only [byteAt, Bool.false_eq_true, if_false]
    rw [leVal_byte _ j (by simpa [memList_length] using hj)]
    simp [memList]
  · simp only [byteAt, if_true]
    rw [leVal_byte _ (n - 1 - j) (by simp [memList_length]; omega)]
    simp only [List.getElem_reverse, memList, List.getElem_map, List.getElem_range, List.length_map, List.length_range]
    congr 3; omega

theorem byteAt_lt (v n j : Nat) (be : Bool) : byteAt v n j be < 256 := by
  unfold byteAt; split <;> exact Nat.mod_lt _ (by decide)

/-- a value below `256^n` is what one reads back after storing it -/
theorem readN_of_bytes (μ : Int → Nat) (a : Int) (n v : Nat) (be : Bool) (hv : v < 256 ^ n)
    (h : ∀ j : Nat, j < n → μ (a + (j : Int)) % 256 = byteAt v n j be) : readN μ a n be = v := by
  rw [readN_eq]
  conv => rhs; rw [← leVal_bytes_of n v hv]
  cases be
  · simp only [Bool.false_eq_true, if_false]
    apply leVal_congr _ _ (by simp [memList_length])
    intro i h1
    have hi : i < n := by simpa [memList_length] using h1
    simp only [memList, List.getElem_map, List.getElem_range]
    rw [h i hi]; simp [byteAt]
  · simp only [if_true]
    apply leVal_congr _ _ (by simp [memList_length])
    intro i h1
    have hi : i < n := by simpa [memList_length] using h1
    simp only [List.getElem_reverse, memList, List.getElem_map, List.getElem_range, List.length_map, List.length_range]
    rw [h (n - 1 - i) (by omega)]
    simp only [byteAt, if_true, Nat.mod_mod]
    congr 3; omega

/-! ### writeN -/

theorem writeN_in (μ : Int → Nat) (a : Int) (n v : Nat) (be : Bool) (j : Nat) (hj : j < n) :
    writeN μ a n v be (a + (j : Int)) = byteAt v n j be := by
  unfold writeN
  have : a ≤ a + (j : Int) ∧ a + (j : Int) < a + (n : Int) := by omega
  rw [if_pos this]
  congr 1; omega

theorem writeN_out (μ : Int → Nat) (a : Int) (n v : Nat) (be : Bool) (x : Int) (h : x < a ∨ a + (n : Int) ≤ x) :
    writeN μ a n v be x = μ x := by
  unfold writeN
  rw [if_neg (by omega)]

theorem writeN_zero (μ : Int → Nat) (a : Int) (v : Nat) (be : Bool) : writeN μ a 0 v be = μ := by
  funext x; exact writeN_out μ a 0 v be x (by omega)

/-- all bytes of a memory are bytes -/
def Bytes (μ : Int → Nat) : Prop := ∀ x, μ x < 256

theorem Bytes.writeN {μ : Int → Nat} (h : Bytes μ) (a : Int) (n v : Nat) (be : Bool) : Bytes (writeN μ a n v be) := by
  intro x
  unfold Amoco.Mapper.writeN
  split
  · exact byteAt_lt _ _ _ _
  · exact h x

/-! ### wrap / addrOf -/

theorem wrap_lt (w : Nat) (x : Int) : wrap w x < 2 ^ w := by
  unfold wrap
  have hp : (0 : Int) < ((2 ^ w : Nat) : Int) := by exact_mod_cast Nat.two_pow_pos w
  have h1 := Int.emod_lt_of_pos x hp
  have h0 := Int.emod_nonneg x (Int.ne_of_gt hp)
  omega

theorem wrap_cast (w : Nat) (x : Int) : ((wrap w x : Nat) : Int) = x % ((2 ^ w : Nat) : Int) := by
  unfold wrap
  have hp : (0 : Int) < ((2 ^ w : Nat) : Int) := by exact_mod_cast Nat.two_pow_pos w
  have h0 := Int.emod_nonneg x (Int.ne_of_gt hp)
  omega

theorem wrap_wrap_add (w : Nat) (x c : Int) : wrap w ((wrap w x : Nat) + c) = wrap w (x + c) := by
  unfold wrap
  have hp : (0 : Int) < ((2 ^ w : Nat) : Int) := by exact_mod_cast Nat.two_pow_pos w
  have h0 := Int.emod_nonneg x (Int.ne_of_gt hp)
  rw [Int.toNat_of_nonneg h0, Int.emod_add_emod]

theorem wrap_of_range (w : Nat) (x : Int) (h0 : 0 ≤ x) (h1 : x < ((2 ^ w : Nat) : Int)) : ((wrap w x : Nat) : Int) = x := by
  rw [wrap_cast, Int.emod_eq_of_lt h0 h1]

theorem wrap_nat (w v : Nat) (h : v < 2 ^ w) : wrap w (v : Int) = v := by
  have := wrap_of_range w (v : Int) (by omega) (by exact_mod_cast h)
  exact_mod_cast this

end Amoco.Mapper
