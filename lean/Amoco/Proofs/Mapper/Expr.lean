/-
  Amoco.Proofs.Mapper.Expr — meaning and size of the expression constructors of the mapper model
  (`mkSlice`, `mkCat`, `catList`, `mkAddc`, `mkPtr`, `splice`), and of `X.toE`.
-/
import Amoco.Proofs.Mapper.Bytes

set_option linter.unusedSimpArgs false
set_option linter.unusedVariables false

namespace Amoco.Mapper

variable (sem : OpSem) (σ : St)

/-- length in bytes of an expression -/
def nbytes (e : E) : Nat := e.size / 8

theorem pow256 (n : Nat) : 256 ^ n = 2 ^ (8 * n) := by
  rw [show (256 : Nat) = 2 ^ 8 by decide, ← Nat.pow_mul]

theorem ideal_lt (e : E) : ideal sem σ e < 2 ^ e.size := by
  cases e with
  | cst v s => simp only [ideal, E.size]; exact Nat.mod_lt _ (Nat.two_pow_pos s)
  | reg n s => simp only [ideal, E.size]; exact Nat.mod_lt _ (Nat.two_pow_pos s)
  | slc x p s => simp only [ideal, E.size]; exact Nat.mod_lt _ (Nat.two_pow_pos s)
  | cat lo hi =>
    simp only [ideal, E.size]
    have h1 : ideal sem σ lo % 2 ^ lo.size < 2 ^ lo.size := Nat.mod_lt _ (Nat.two_pow_pos _)
    have h2 : ideal sem σ hi % 2 ^ hi.size < 2 ^ hi.size := Nat.mod_lt _ (Nat.two_pow_pos _)
    rw [Nat.pow_add]
    have : (ideal sem σ hi % 2 ^ hi.size) * 2 ^ lo.size ≤ (2 ^ hi.size - 1) * 2 ^ lo.size :=
      Nat.mul_le_mul_right _ (by omega)
    rw [Nat.sub_mul, Nat.one_mul] at this
    have hp : 2 ^ lo.size ≤ 2 ^ hi.size * 2 ^ lo.size := Nat.le_mul_of_pos_left _ (Nat.two_pow_pos _)
    rw [Nat.mul_comm (2 ^ lo.size)]
    omega
  | addc x c => simp only [ideal, E.size]; exact wrap_lt _ _
  | op o l r s => simp only [ideal, E.size]; exact Nat.mod_lt _ (Nat.two_pow_pos s)
  | load b d s be ms =>
    simp only [ideal, E.size]
    have h := readN_lt (replayMods sem σ σ.mem ms) (addrOf b.size (ideal sem σ b) d) (s / 8) be
    rw [pow256] at h
    exact Nat.lt_of_lt_of_le h (Nat.pow_le_pow_right (by decide) (Nat.mul_div_le s 8))

theorem ideal_mod (e : E) : ideal sem σ e % 2 ^ e.size = ideal sem σ e := Nat.mod_eq_of_lt (ideal_lt sem σ e)

theorem ideal_cat (lo hi : E) : ideal sem σ (.cat lo hi) = ideal sem σ lo + ideal sem σ hi * 2 ^ lo.size := by
  simp only [ideal, ideal_mod]

/-! ### mkSlice -/

theorem size_mkSlice : ∀ (x : E) (p s : Nat), (mkSlice x p s).size = s
  | .cst v sz, p, s => by
    unfold mkSlice; split
    · rename_i h; exact h.2.symm
    · rfl
  | .cat lo hi, p, s => by
    unfold mkSlice; split
    · rename_i h; exact h.2.symm
    · split
      · exact size_mkSlice lo p s
      · split
        · exact size_mkSlice hi _ s
        · rfl
  | .slc y p' s', p, s => by
    unfold mkSlice; split
    · rename_i h; exact h.2.symm
    · split
      · exact size_mkSlice y _ s
      · rfl
  | .reg n sz, p, s => by
    unfold mkSlice; split
    · rename_i h; exact h.2.symm
    · rfl
  | .addc x c, p, s => by
    unfold mkSlice; split
    · rename_i h; exact h.2.symm
    · rfl
  | .op o l r sz, p, s => by
    unfold mkSlice; split
    · rename_i h; exact h.2.symm
    · rfl
  | .load b d sz be ms, p, s => by
    unfold mkSlice; split
    · rename_i h; exact h.2.symm
    · rfl

theorem shift_low (L H a p s : Nat) (h : p + s ≤ a) : ((L + H * 2 ^ a) >>> p) % 2 ^ s = (L >>> p) % 2 ^ s := by
  rw [Nat.shiftRight_eq_div_pow, Nat.shiftRight_eq_div_pow]
  have e : 2 ^ a = 2 ^ p * (2 ^ (a - p - s) * 2 ^ s) := by
    rw [← Nat.pow_add, ← Nat.pow_add]; congr 1; omega
  rw [e, ← Nat.mul_assoc, Nat.mul_comm H, Nat.mul_assoc, Nat.add_mul_div_left _ _ (Nat.two_pow_pos _),
    ← Nat.mul_assoc, Nat.add_mul_mod_self_right]

theorem shift_high (L H a p : Nat) (hL : L < 2 ^ a) (h : a ≤ p) : (L + H * 2 ^ a) >>> p = H >>> (p - a) := by
  rw [Nat.shiftRight_eq_div_pow, Nat.shiftRight_eq_div_pow]
  have e : 2 ^ p = 2 ^ a * 2 ^ (p - a) := by rw [← Nat.pow_add]; congr 1; omega
  rw [e, ← Nat.div_div_eq_div_mul, Nat.add_mul_div_right _ _ (Nat.two_pow_pos _), Nat.div_eq_of_lt hL, Nat.zero_add]

theorem slice_slice (X p' s' p s : Nat) (h : p + s ≤ s') :
    (((X >>> p') % 2 ^ s') >>> p) % 2 ^ s = (X >>> (p' + p)) % 2 ^ s := by
  rw [Nat.shiftRight_add]
  generalize X >>> p' = Y
  -- Y % 2^s' = low part; write Y = (Y % 2^s') + (Y / 2^s') * 2^s'
  have hY : Y = Y % 2 ^ s' + (Y / 2 ^ s') * 2 ^ s' := by
    rw [Nat.mul_comm]; exact (Nat.mod_add_div Y (2 ^ s')).symm
  conv => rhs; rw [hY]
  exact (shift_low _ _ _ _ _ h).symm

theorem ideal_mkSlice : ∀ (x : E) (p s : Nat), ideal sem σ (mkSlice x p s) = (ideal sem σ x >>> p) % 2 ^ s
  | .cst v sz, p, s => by
    unfold mkSlice; split
    · rename_i h; rw [h.1, h.2, Nat.shiftRight_zero]; exact (ideal_mod sem σ (.cst v sz)).symm
    · simp only [ideal]; rw [Nat.mod_mod]
  | .cat lo hi, p, s => by
    unfold mkSlice; split
    · rename_i h; rw [h.1, h.2, Nat.shiftRight_zero]; exact (ideal_mod sem σ (.cat lo hi)).symm
    · split
      · rename_i h
        rw [ideal_mkSlice lo p s, ideal_cat]
        exact (shift_low _ _ _ _ _ h).symm
      · split
        · rename_i h
          rw [ideal_mkSlice hi _ s, ideal_cat, shift_high _ _ _ _ (ideal_lt sem σ lo) h]
        · simp only [ideal]
  | .slc y p' s', p, s => by
    unfold mkSlice; split
    · rename_i h; rw [h.1, h.2, Nat.shiftRight_zero]; exact (ideal_mod sem σ (.slc y p' s')).symm
    · split
      · rename_i h
        rw [ideal_mkSlice y _ s]
        simp only [ideal]
        exact (slice_slice _ _ _ _ _ h).symm
      · simp only [ideal]
  | .reg n sz, p, s => by
    unfold mkSlice; split
    · rename_i h; rw [h.1, h.2, Nat.shiftRight_zero]; exact (ideal_mod sem σ (.reg n sz)).symm
    · simp only [ideal]
  | .addc x c, p, s => by
    unfold mkSlice; split
    · rename_i h; rw [h.1, h.2, Nat.shiftRight_zero]; exact (ideal_mod sem σ (.addc x c)).symm
    · simp only [ideal]
  | .op o l r sz, p, s => by
    unfold mkSlice; split
    · rename_i h; rw [h.1, h.2, Nat.shiftRight_zero]; exact (ideal_mod sem σ (.op o l r sz)).symm
    · simp only [ideal]
  | .load b d sz be ms, p, s => by
    unfold mkSlice; split
    · rename_i h; rw [h.1, h.2, Nat.shiftRight_zero]; exact (ideal_mod sem σ (.load b d sz be ms)).symm
    · simp only [ideal]

/-! ### mkCat / catList -/

theorem size_mkCat (lo hi : E) : (mkCat lo hi).size = lo.size + hi.size := by
  unfold mkCat
  split <;> rfl

theorem ideal_mkCat (lo hi : E) : ideal sem σ (mkCat lo hi) = ideal sem σ lo + ideal sem σ hi * 2 ^ lo.size := by
  unfold mkCat
  split
  · rename_i a sa b sb
    have h := ideal_lt sem σ (.cat (.cst a sa) (.cst b sb))
    simp only [ideal, E.size, Nat.mod_mod] at h ⊢
    rw [Nat.mod_eq_of_lt h]
  · exact ideal_cat sem σ lo hi

theorem size_catList : ∀ (es : List E), (catList es).size = (es.map E.size).sum
  | [] => rfl
  | [e] => by simp [catList]
  | e :: e' :: rest => by
    have ih := size_catList (e' :: rest)
    simp only [catList, size_mkCat, List.map_cons, List.sum_cons] at ih ⊢
    rw [ih]

theorem ideal_catList_cons (e : E) (rest : List E) :
    ideal sem σ (catList (e :: rest)) = ideal sem σ e + ideal sem σ (catList rest) * 2 ^ e.size := by
  cases rest with
  | nil => simp [catList, ideal]
  | cons e' r => simp only [catList, ideal_mkCat]

/-! ### read-back joining -/

theorem size_mkWhole (x : E) (p n : Nat) : (mkWhole x p n).size = n := by
  unfold mkWhole; split
  · rename_i h; exact h.2.symm
  · rfl

theorem ideal_mkWhole (x : E) (p n : Nat) : ideal sem σ (mkWhole x p n) = (ideal sem σ x >>> p) % 2 ^ n := by
  unfold mkWhole; split
  · rename_i h; rw [h.1, h.2, Nat.shiftRight_zero]; exact (ideal_mod sem σ x).symm
  · simp only [ideal]

/-- two adjacent slices are one slice -/
theorem merge_slices (X p s t : Nat) :
    (X >>> p) % 2 ^ s + ((X >>> (p + s)) % 2 ^ t) * 2 ^ s = (X >>> p) % 2 ^ (s + t) := by
  rw [Nat.shiftRight_add, Nat.shiftRight_eq_div_pow (X >>> p) s, Nat.pow_add, Nat.mod_mul, Nat.mul_comm]

theorem mkCatJ_spec (lo hi : E) :
    ideal sem σ (mkCatJ lo hi) = ideal sem σ lo + ideal sem σ hi * 2 ^ lo.size ∧
    (mkCatJ lo hi).size = lo.size + hi.size := by
  unfold mkCatJ
  split
  · rename_i x p s y q t
    split
    · rename_i h
      obtain ⟨rfl, rfl⟩ := h
      refine ⟨?_, by simp only [size_mkWhole, E.size]⟩
      rw [ideal_mkWhole]
      simp only [ideal, E.size]
      exact (merge_slices _ _ _ _).symm
    · exact ⟨ideal_mkCat sem σ _ _, size_mkCat _ _⟩
  · rename_i x p s y q t rest
    split
    · rename_i h
      obtain ⟨rfl, rfl⟩ := h
      refine ⟨?_, by simp only [E.size, size_mkWhole]; omega⟩
      rw [ideal_cat, ideal_cat, ideal_mkWhole, size_mkWhole]
      simp only [ideal, E.size]
      rw [← merge_slices, Nat.pow_add, Nat.add_mul, ← Nat.mul_assoc, Nat.add_assoc,
        Nat.mul_right_comm (ideal sem σ rest) (2 ^ s) (2 ^ t)]
    · exact ⟨ideal_mkCat sem σ _ _, size_mkCat _ _⟩
  · exact ⟨ideal_mkCat sem σ _ _, size_mkCat _ _⟩

theorem catListJ_spec : ∀ (es : List E),
    ideal sem σ (catListJ es) = ideal sem σ (catList es) ∧ (catListJ es).size = (catList es).size
  | [] => ⟨rfl, rfl⟩
  | [e] => ⟨rfl, rfl⟩
  | e :: e' :: rest => by
    obtain ⟨ih1, ih2⟩ := catListJ_spec (e' :: rest)
    obtain ⟨h1, h2⟩ := mkCatJ_spec sem σ e (catListJ (e' :: rest))
    have hc : catList (e :: e' :: rest) = mkCat e (catList (e' :: rest)) := rfl
    have hj : catListJ (e :: e' :: rest) = mkCatJ e (catListJ (e' :: rest)) := rfl
    rw [hc, hj, h1, h2, ideal_mkCat, size_mkCat, ih1, ih2]
    exact ⟨rfl, rfl⟩

omit sem σ in
theorem size_catListJ (es : List E) : (catListJ es).size = (catList es).size :=
  (catListJ_spec (fun _ _ _ _ => 0) ⟨fun _ _ => 0, fun _ => 0⟩ es).2

/-- a composition of 8-bit parts is the little-endian assembly of their values -/
theorem ideal_catList_bytes : ∀ (es : List E), (∀ e ∈ es, e.size = 8) →
    ideal sem σ (catList es) = leVal (es.map (ideal sem σ))
  | [], _ => by simp [catList, ideal, leVal]
  | e :: rest, h => by
    rw [ideal_catList_cons, ideal_catList_bytes rest (fun x hx => h x (List.mem_cons_of_mem _ hx))]
    have h8 : e.size = 8 := h e List.mem_cons_self
    have hl := ideal_lt sem σ e
    rw [h8] at hl
    simp only [List.map_cons, leVal, h8]
    rw [Nat.mod_eq_of_lt (by simpa using hl)]
    omega

theorem size_catList_bytes (es : List E) (h : ∀ e ∈ es, e.size = 8) : (catList es).size = 8 * es.length := by
  rw [size_catList]
  induction es with
  | nil => rfl
  | cons e rest ih =>
    simp only [List.map_cons, List.sum_cons, List.length_cons]
    rw [ih (fun x hx => h x (List.mem_cons_of_mem _ hx)), h e List.mem_cons_self]
    omega

/-! ### mkAddc / mkPtr -/

theorem size_mkAddc (x : E) (c : Int) : (mkAddc x c).size = x.size := by
  unfold mkAddc
  split
  · rfl
  · split
    · rfl
    · split <;> rfl
    · rfl

theorem ideal_mkAddc (x : E) (c : Int) : ideal sem σ (mkAddc x c) = wrap x.size ((ideal sem σ x : Int) + c) := by
  unfold mkAddc
  split
  · rename_i h
    subst h
    have := wrap_nat x.size (ideal sem σ x) (ideal_lt sem σ x)
    simpa using this.symm
  · split
    · rename_i v s
      simp only [ideal, E.size]
      rw [Nat.mod_eq_of_lt (wrap_lt _ _)]
      have e : ((v % 2 ^ s : Nat) : Int) = (v : Int) % ((2 ^ s : Nat) : Int) := by exact_mod_cast rfl
      unfold wrap
      rw [e, Int.emod_add_emod]
    · rename_i y c'
      split
      · rename_i h0
        simp only [ideal, E.size]
        rw [wrap_wrap_add, Int.add_assoc, h0, Int.add_zero]
        exact (wrap_nat _ _ (ideal_lt sem σ y)).symm
      · simp only [ideal, E.size]
        rw [wrap_wrap_add, Int.add_assoc]
    · simp only [ideal]

theorem size_mkPtr (b : E) (d : Int) : (mkPtr b d).1.size = b.size := by
  unfold mkPtr
  split <;> rfl

/-- `ptr` normalisation does not change the address -/
theorem addrOf_mkPtr (b : E) (d : Int) :
    addrOf (mkPtr b d).1.size (ideal sem σ (mkPtr b d).1) (mkPtr b d).2 = addrOf b.size (ideal sem σ b) d := by
  unfold mkPtr
  split
  · rename_i x c
    simp only [ideal, E.size, addrOf]
    rw [wrap_wrap_add]
    congr 2; omega
  · rfl

/-! ### splice -/

theorem spliceVal_lt (old rs pos size v : Nat) (h : pos + size ≤ rs) : spliceVal old rs pos size v < 2 ^ rs := by
  unfold spliceVal
  have h1 : old % 2 ^ pos < 2 ^ pos := Nat.mod_lt _ (Nat.two_pow_pos _)
  have h2 : v % 2 ^ size < 2 ^ size := Nat.mod_lt _ (Nat.two_pow_pos _)
  have h3 : (old % 2 ^ rs) >>> (pos + size) < 2 ^ (rs - (pos + size)) := by
    rw [Nat.shiftRight_eq_div_pow]
    apply Nat.div_lt_of_lt_mul
    rw [← Nat.pow_add, Nat.add_sub_cancel' h]
    exact Nat.mod_lt _ (Nat.two_pow_pos _)
  have e : 2 ^ rs = 2 ^ (rs - (pos + size)) * (2 ^ size * 2 ^ pos) := by
    rw [← Nat.pow_add, ← Nat.pow_add, Nat.add_comm size pos, Nat.sub_add_cancel h]
  have e2 : 2 ^ (pos + size) = 2 ^ size * 2 ^ pos := by rw [Nat.pow_add, Nat.mul_comm]
  generalize old % 2 ^ pos = A at *
  generalize v % 2 ^ size = B at *
  generalize (old % 2 ^ rs) >>> (pos + size) = C at *
  rw [e, e2]
  generalize 2 ^ pos = P at *
  generalize 2 ^ size = S at *
  generalize 2 ^ (rs - (pos + size)) = T at *
  have a1 : B * P ≤ (S - 1) * P := Nat.mul_le_mul_right _ (by omega)
  have a2 : C * (S * P) ≤ (T - 1) * (S * P) := Nat.mul_le_mul_right _ (by omega)
  rw [Nat.sub_mul, Nat.one_mul] at a1 a2
  have p1 : P ≤ S * P := Nat.le_mul_of_pos_left _ (by omega)
  have p2 : S * P ≤ T * (S * P) := Nat.le_mul_of_pos_left _ (by omega)
  omega

theorem size_splice (old : E) (rs pos size : Nat) (v : E) (ho : old.size = rs) (hv : v.size = size)
    (h : pos + size ≤ rs) : (splice old rs pos size v).size = rs := by
  unfold splice
  split
  · rename_i h0; rw [hv, h0.2]
  · rw [size_catList]
    by_cases hp : 0 < pos <;> by_cases hh : pos + size < rs <;>
      simp [hp, hh, size_mkSlice, hv] <;> omega

theorem ideal_splice (old : E) (rs pos size : Nat) (v : E) (ho : old.size = rs) (hv : v.size = size)
    (h : pos + size ≤ rs) :
    ideal sem σ (splice old rs pos size v) = spliceVal (ideal sem σ old) rs pos size (ideal sem σ v) := by
  have hvl := ideal_lt sem σ v
  have hol := ideal_lt sem σ old
  rw [hv] at hvl
  rw [ho] at hol
  have hmo : ideal sem σ old % 2 ^ rs = ideal sem σ old := Nat.mod_eq_of_lt hol
  have hmv : ideal sem σ v % 2 ^ size = ideal sem σ v := Nat.mod_eq_of_lt hvl
  have hhi : (ideal sem σ old >>> (pos + size)) % 2 ^ (rs - (pos + size)) = ideal sem σ old >>> (pos + size) := by
    apply Nat.mod_eq_of_lt
    rw [Nat.shiftRight_eq_div_pow]
    apply Nat.div_lt_of_lt_mul
    rw [← Nat.pow_add, Nat.add_sub_cancel' h]
    exact hol
  unfold splice spliceVal
  rw [hmo, hmv]
  split
  · rename_i h0
    obtain ⟨h1, h2⟩ := h0
    subst h1
    have : ideal sem σ old >>> size = 0 := by
      rw [Nat.shiftRight_eq_div_pow, h2]
      exact Nat.div_eq_of_lt hol
    simp [this, Nat.mod_one]
  · rename_i hn
    by_cases hp : 0 < pos <;> by_cases hh : pos + size < rs
    · simp only [hp, hh, if_true, List.singleton_append, List.cons_append, List.nil_append]
      rw [ideal_catList_cons, ideal_catList_cons, ideal_catList_cons]
      simp only [catList, ideal, size_mkSlice, ideal_mkSlice, hv, Nat.shiftRight_zero, hhi]
      rw [Nat.pow_add]
      simp only [Nat.zero_mod, Nat.zero_mul, Nat.add_zero, Nat.pow_zero, Nat.mod_one]
      rw [Nat.add_mul, Nat.mul_assoc, Nat.mul_comm (2 ^ size) (2 ^ pos), Nat.add_assoc]
    · have e : pos + size = rs := by omega
      simp only [hp, hh, if_true, if_false, List.singleton_append, List.append_nil]
      rw [ideal_catList_cons, ideal_catList_cons]
      simp only [catList, ideal, size_mkSlice, ideal_mkSlice, hv, Nat.shiftRight_zero]
      have : ideal sem σ old >>> (pos + size) = 0 := by
        rw [Nat.shiftRight_eq_div_pow, e]; exact Nat.div_eq_of_lt hol
      simp [this]
    · have e : pos = 0 := by omega
      subst e
      simp only [hp, hh, if_true, if_false, List.nil_append, List.singleton_append]
      rw [ideal_catList_cons, ideal_catList_cons]
      simp only [catList, ideal, size_mkSlice, ideal_mkSlice, hv, hhi]
      simp [Nat.mod_one]
    · have e : pos = 0 := by omega
      subst e
      have e2 : size = rs := by omega
      exact absurd ⟨rfl, e2⟩ hn

/-! ### constant folding at construction -/

theorem foldE_spec : ∀ e : E, ideal sem σ (foldE e) = ideal sem σ e ∧ (foldE e).size = e.size
  | .cst _ _ => ⟨rfl, rfl⟩
  | .reg _ _ => ⟨rfl, rfl⟩
  | .slc x p s => by
    obtain ⟨h1, _⟩ := foldE_spec x
    simp only [foldE, ideal_mkSlice, size_mkSlice, ideal, E.size, h1, and_self]
  | .cat lo hi => by
    obtain ⟨l1, l2⟩ := foldE_spec lo
    obtain ⟨r1, r2⟩ := foldE_spec hi
    simp only [foldE, ideal_mkCat, size_mkCat, ideal_cat, E.size, l1, l2, r1, r2, and_self]
  | .addc x c => by
    obtain ⟨h1, h2⟩ := foldE_spec x
    simp only [foldE, ideal_mkAddc, size_mkAddc, ideal, E.size, h1, h2, and_self]
  | .op o l r s => by
    obtain ⟨l1, _⟩ := foldE_spec l
    obtain ⟨r1, _⟩ := foldE_spec r
    simp only [foldE, ideal, E.size, l1, r1, and_self]
  | .load b d s be ms => by
    obtain ⟨h1, h2⟩ := foldE_spec b
    simp only [foldE, ideal, E.size, h1, h2, and_self]

/-! ### IR right-hand sides -/

theorem size_toE (be : Bool) (x : X) : (x.toE be).size = x.size := by
  induction x with
  | cst | reg | slc | op | load => rfl
  | cat lo hi ih1 ih2 => simp only [X.toE, E.size, X.size, ih1, ih2]
  | addc x c ih => simp only [X.toE, E.size, X.size, ih]

theorem ideal_toE (be : Bool) (x : X) : ideal sem σ (x.toE be) = x.val sem be σ := by
  induction x with
  | cst | reg => rfl
  | slc x p s ih => simp only [X.toE, ideal, X.val, ih]
  | cat lo hi ih1 ih2 => simp only [X.toE, ideal, X.val, ih1, ih2, size_toE]
  | addc x c ih => simp only [X.toE, ideal, X.val, ih, size_toE]
  | op o l r s ih1 ih2 => simp only [X.toE, ideal, X.val, ih1, ih2]
  | load b d s ih => simp only [X.toE, ideal, X.val, ih, size_toE, replayMods]

end Amoco.Mapper
