/-
  Amoco.Proofs.Mapper.Zones — the memory of a map as byte values: `_Mem_read` and `_Mem_write` of the
  mapper model against the byte-store theorems of C08 (`read_refines`, `abs_write`, `abs_copy`).
-/
import Amoco.Proofs.Mapper.Expr
import Amoco.Props.C08

set_option linter.unusedSimpArgs false
set_option linter.unusedVariables false

namespace Amoco.Mapper

open Amoco.Memory (Endian ByteDesc Zone Item Val flattenItems override absWrite)
open Amoco.Memory.Props

variable (sem : OpSem) (σ : St)

/-! ### zones as an association list -/

theorem zoneOf_setZone (zs : List (ZK × Zone)) (k k' : ZK) (z : Zone) :
    zoneOf (setZone zs k z) k' = if k' = k then z else zoneOf zs k' := by
  unfold setZone
  split
  · rename_i hany
    unfold zoneOf
    induction zs with
    | nil => simp at hany
    | cons kz rest ih =>
      simp only [List.map_cons, List.find?_cons]
      by_cases h1 : kz.1 = k
      · simp only [h1, if_true, decide_true]
        by_cases h2 : k' = k
        · simp [h2]
        · have : ¬ k = k' := fun e => h2 e.symm
          simp only [this, decide_false, h2, if_false]
          by_cases hr : rest.any (fun kz => kz.1 = k)
          · have := ih hr
            simpa [h2] using this
          · -- no further occurrence of k: the map is the identity on rest
            have hid : rest.map (fun kz => if kz.1 = k then (k, z) else kz) = rest := by
              have : rest.map (fun kz => if kz.1 = k then (k, z) else kz) = rest.map id := by
                apply List.map_congr_left
                intro x hx
                have : ¬ x.1 = k := by
                  intro e; apply hr
                  simp only [List.any_eq_true, decide_eq_true_eq]; exact ⟨x, hx, e⟩
                simp [this]
              rw [this, List.map_id]
            rw [hid]
      · simp only [h1, if_false]
        by_cases h3 : kz.1 = k'
        · have h2 : ¬ k' = k := fun e => h1 (h3.trans e)
          simp [h3, h2]
        · simp only [h3, decide_false]
          have hr : rest.any (fun kz => kz.1 = k) := by
            simp only [List.any_cons, Bool.or_eq_true, decide_eq_true_eq] at hany
            rcases hany with h | h
            · exact absurd h h1
            · exact h
          exact ih hr
  · rename_i hany
    unfold zoneOf
    rw [List.find?_append]
    by_cases h2 : k' = k
    · subst h2
      have : zs.find? (fun kz => decide (kz.1 = k')) = none := by
        rw [List.find?_eq_none]
        intro x hx hd
        apply hany
        simp only [List.any_eq_true]
        exact ⟨x, hx, hd⟩
      simp [this]
    · have : ¬ k = k' := fun e => h2 e.symm
      simp only [h2, if_false]
      cases zs.find? (fun kz => decide (kz.1 = k')) with
      | some kz => simp
      | none => simp [this]

def ZonesWF (zs : List (ZK × Zone)) : Prop := ∀ k, (zoneOf zs k).WF

theorem zonesWF_nil : ZonesWF [] := fun _ => zoneWF_empty

theorem ZonesWF.set {zs : List (ZK × Zone)} (h : ZonesWF zs) (k : ZK) (z : Zone) (hz : z.WF) :
    ZonesWF (setZone zs k z) := by
  intro k'
  rw [zoneOf_setZone]
  split
  · exact hz
  · exact h k'

theorem zoneOf_copyZones (zs : List (ZK × Zone)) (k : ZK) :
    zoneOf (copyZones zs) k = match zs.find? (fun kz => kz.1 = k) with
      | some kz => kz.2.copy
      | none => Zone.empty := by
  unfold zoneOf copyZones
  induction zs with
  | nil => rfl
  | cons kz rest ih =>
    simp only [List.map_cons, List.find?_cons]
    by_cases h : kz.1 = k
    · simp [h]
    · simp only [h, decide_false]
      exact ih

theorem zoneOf_copy_abs (zs : List (ZK × Zone)) (h : ZonesWF zs) (k : ZK) :
    (zoneOf (copyZones zs) k).WF ∧ (zoneOf (copyZones zs) k).abs = (zoneOf zs k).abs := by
  have hk := h k
  rw [zoneOf_copyZones]
  unfold zoneOf at hk ⊢
  cases hf : zs.find? (fun kz => decide (kz.1 = k)) with
  | none => exact ⟨zoneWF_empty, rfl⟩
  | some kz =>
    rw [hf] at hk
    exact ⟨zoneWF_copy _ hk, abs_copy _ hk⟩

theorem ZonesWF.copy {zs : List (ZK × Zone)} (h : ZonesWF zs) : ZonesWF (copyZones zs) :=
  fun k => (zoneOf_copy_abs zs h k).1

/-! ### byte values -/

/-- the value of a stored byte under `σ` -/
def byteVal (tbl : List E) : ByteDesc → Nat
  | .raw b => b % 256
  | .sym w k => (ideal sem σ (tbl.getD w (.cst 0 0)) >>> (8 * k)) % 256

theorem size_byteE (tbl : List E) (bd : ByteDesc) : (byteE tbl bd).size = 8 := by
  cases bd with
  | raw b => rfl
  | sym w k => exact size_mkSlice _ _ _

theorem ideal_byteE (tbl : List E) (bd : ByteDesc) : ideal sem σ (byteE tbl bd) = byteVal sem σ tbl bd := by
  cases bd with
  | raw b => simp [byteE, ideal, byteVal]
  | sym w k => simp only [byteE, ideal_mkSlice, byteVal]

/-- the byte at zone offset `x` of zone `zk`, as a value (none: never written) -/
def zbyte (m : MapSt) (zk : ZK) (x : Int) : Option Nat :=
  ((zoneOf m.zones zk).abs x).map (byteVal sem σ m.tbl)

/-- every atom mentioned in a zone is in the table -/
def AtomsOK (m : MapSt) : Prop :=
  ∀ zk x w k, (zoneOf m.zones zk).abs x = some (.sym w k) → w < m.tbl.length

/-! ### `_Mem_read` -/

/-- value of the byte `cur` bytes after `(b, d)`: the stored byte, or the input memory -/
def partVal (tbl : List E) (b : E) (d : Int) (cur : Nat) : Option ByteDesc → Nat
  | some bd => byteVal sem σ tbl bd
  | none => σ.mem (addrOf b.size (ideal sem σ b) (d + (cur : Int))) % 256

theorem readParts_cons (tbl : List E) (b : E) (d : Int) (be : Bool) (cur : Nat) (ob : Option ByteDesc)
    (rest : List (Option ByteDesc)) :
    readParts tbl b d be cur (ob :: rest) =
        (match ob with
          | some bd => byteE tbl bd
          | none => .load b (d + (cur : Int)) 8 be .nil) :: readParts tbl b d be (cur + 1) rest := by
  cases ob <;> simp [readParts]

theorem readParts_shape (tbl : List E) (b : E) (d : Int) (be : Bool) :
    ∀ (bytes : List (Option ByteDesc)) (cur : Nat),
      (readParts tbl b d be cur bytes).length = bytes.length ∧
      (∀ e ∈ readParts tbl b d be cur bytes, e.size = 8)
  | [], cur => by simp [readParts]
  | ob :: rest, cur => by
    obtain ⟨ih1, ih2⟩ := readParts_shape tbl b d be rest (cur + 1)
    rw [readParts_cons]
    refine ⟨by simp [ih1], ?_⟩
    intro e he
    rcases List.mem_cons.mp he with rfl | he
    · cases ob with
      | some bd => exact size_byteE _ _
      | none => rfl
    · exact ih2 e he

theorem readParts_vals (tbl : List E) (b : E) (d : Int) (be : Bool) :
    ∀ (bytes : List (Option ByteDesc)) (cur : Nat) (i : Nat) (hi : i < bytes.length),
        ((readParts tbl b d be cur bytes).map (ideal sem σ))[i]? = some (partVal sem σ tbl b d (cur + i) bytes[i])
  | [], cur, i, hi => by simp at hi
  | ob :: rest, cur, i, hi => by
    rw [readParts_cons]
    cases i with
    | zero =>
      simp only [List.map_cons, List.getElem?_cons_zero, List.getElem_cons_zero, Nat.add_zero]
      cases ob with
      | some bd => simp [ideal_byteE, partVal]
      | none =>
        simp only [partVal, ideal, replayMods]
        have : (8 : Nat) / 8 = 1 := rfl
        rw [this]
        cases be <;> simp [readN]
    | succ i =>
      simp only [List.map_cons, List.getElem?_cons_succ, List.getElem_cons_succ]
      have := readParts_vals tbl b d be rest (cur + 1) i (by simpa using hi)
      rw [this]
      congr 2; omega

theorem size_memRead (m : MapSt) (b : E) (d : Int) (l : Nat) (be : Bool) (wf : ZonesWF m.zones) :
    (memRead m b d l be).size = 8 * l := by
  unfold memRead
  simp only
  have hlen : (flattenItems ((zoneOf m.zones (zref b d).1).read (zref b d).2 l)).length = l :=
    read_length _ _ _ (wf _)
  obtain ⟨h1, h2⟩ := readParts_shape m.tbl b d be
    (flattenItems ((zoneOf m.zones (zref b d).1).read (zref b d).2 l)) 0
  split
  · rw [size_catListJ, size_catList_bytes _ (by intro e he; exact h2 e (List.mem_reverse.mp he))]
    simp [h1, hlen]
  · rw [size_catListJ, size_catList_bytes _ h2]
    simp [h1, hlen]

/-- **`_Mem_read` is a byte-store read**: if every byte of the window — the stored byte where the zone has
    one, the input memory elsewhere — is the byte of `μ` at `A + k`, the result evaluates to the `l` bytes
    of `μ` at `A`. -/
theorem ideal_memRead (m : MapSt) (b : E) (d : Int) (l : Nat) (be : Bool) (wf : ZonesWF m.zones)
    (μ : Int → Nat) (A : Int)
    (h : ∀ k : Nat, k < l →
      (match zbyte sem σ m (zref b d).1 ((zref b d).2 + (k : Int)) with
        | some v => v
        | none => σ.mem (addrOf b.size (ideal sem σ b) (d + (k : Int))) % 256) = μ (A + (k : Int)) % 256) :
    ideal sem σ (memRead m b d l be) = readN μ A l be := by
  unfold memRead
  simp only
  have hrd := read_refines (zoneOf m.zones (zref b d).1) (zref b d).2 l (wf _)
  have hlen : (flattenItems ((zoneOf m.zones (zref b d).1).read (zref b d).2 l)).length = l := by
    rw [hrd]; simp
  obtain ⟨h1, h2⟩ := readParts_shape m.tbl b d be
    (flattenItems ((zoneOf m.zones (zref b d).1).read (zref b d).2 l)) 0
  have h3 := readParts_vals sem σ m.tbl b d be
    (flattenItems ((zoneOf m.zones (zref b d).1).read (zref b d).2 l)) 0
  have hval : ∀ k (hk : k < l),
      ((readParts m.tbl b d be 0 (flattenItems ((zoneOf m.zones (zref b d).1).read (zref b d).2 l))).map
        (ideal sem σ))[k]? = some ((match zbyte sem σ m (zref b d).1 ((zref b d).2 + (k : Int)) with
        | some v => v
        | none => σ.mem (addrOf b.size (ideal sem σ b) (d + (k : Int))) % 256)) := by
    intro k hk
    rw [h3 k (by rw [hlen]; exact hk)]
    congr 1
    have hb : (flattenItems ((zoneOf m.zones (zref b d).1).read (zref b d).2 l))[k]'(by rw [hlen]; exact hk)
        = (zoneOf m.zones (zref b d).1).abs ((zref b d).2 + (k : Int)) := by
      have := read_byte (zoneOf m.zones (zref b d).1) (zref b d).2 l k (wf _) hk
      rw [List.getElem?_eq_getElem (by rw [hlen]; exact hk)] at this
      exact Option.some.inj this
    rw [hb]
    unfold zbyte
    cases (zoneOf m.zones (zref b d).1).abs ((zref b d).2 + (k : Int)) with
    | some bd => simp [partVal]
    | none => simp [partVal]
  have hlen2 : ((readParts m.tbl b d be 0 (flattenItems ((zoneOf m.zones (zref b d).1).read (zref b d).2 l))).map
        (ideal sem σ)).length = l := by simp [h1, hlen]
  rw [readN_eq]
  split
  · rename_i hbe
    rw [(catListJ_spec sem σ _).1, ideal_catList_bytes _ _ _ (by intro e he; exact h2 e (List.mem_reverse.mp he)), List.map_reverse]
    apply leVal_congr _ _ (by simp [memList_length, h1, hlen])
    intro i hi1
    have hi : i < l := by simpa [h1, hlen] using hi1
    simp only [List.getElem_reverse, memList, List.getElem_map, List.getElem_range, List.length_map,
      List.length_range]
    have hk : l - 1 - i < l := by omega
    have := hval (l - 1 - i) hk
    rw [List.getElem?_eq_getElem (by rw [hlen2]; exact hk)] at this
    have e := Option.some.inj this
    simp only [List.getElem_map] at e
    simp only [h1, hlen]
    rw [e, h (l - 1 - i) hk, Nat.mod_mod]
  · rw [(catListJ_spec sem σ _).1, ideal_catList_bytes _ _ _ h2]
    apply leVal_congr _ _ (by simp [memList_length, h1, hlen])
    intro i hi1
    have hi : i < l := by simpa [h1, hlen] using hi1
    have := hval i hi
    rw [List.getElem?_eq_getElem (by rw [hlen2]; exact hi)] at this
    have e := Option.some.inj this
    simp only [memList, List.getElem_map, List.getElem_range] at e ⊢
    rw [e, h i hi, Nat.mod_mod]

/-! ### `_Mem_write` -/

theorem toVal_len (w : Nat) (v : E) (n : Nat) : (toVal w v n).len = n := by
  unfold toVal
  split <;> simp [Val.len]

theorem byteVal_append (tbl : List E) (v : E) (bd : ByteDesc)
    (h : ∀ w k, bd = .sym w k → w < tbl.length) : byteVal sem σ (tbl ++ [v]) bd = byteVal sem σ tbl bd := by
  cases bd with
  | raw b => rfl
  | sym w k =>
    have hw := h w k rfl
    simp only [byteVal]
    rw [List.getD_eq_getElem?_getD, List.getD_eq_getElem?_getD, List.getElem?_append_left hw]

/-- the bytes a write puts into the zone, as values: byte `j` (memory order) of the stored value -/
theorem toVal_bytes (tbl : List E) (v : E) (n : Nat) (be : Bool) (j : Nat) (hj : j < n) :
    ∃ bd, ((toVal tbl.length v n).memBytes (enOf be))[j]? = some bd ∧
      byteVal sem σ (tbl ++ [v]) bd = byteAt (ideal sem σ v) n j be ∧
      (∀ w k, bd = .sym w k → w < (tbl ++ [v]).length) := by
  have hget : (tbl ++ [v]).getD tbl.length (.cst 0 0) = v := by
    rw [List.getD_eq_getElem?_getD, List.getElem?_append_right (Nat.le_refl _)]
    simp
  cases be
  · -- little endian: memory order = value order
    by_cases hc : ∃ c s, v = .cst c s
    · obtain ⟨c, s, rfl⟩ := hc
      refine ⟨.raw (((c % 2 ^ s) >>> (8 * j)) % 256), ?_, ?_, ?_⟩
      · simp [toVal, Val.memBytes, enOf, hj]
      · simp [byteVal, byteAt, ideal]
      · intro w k h; cases h
    · refine ⟨.sym tbl.length j, ?_, ?_, ?_⟩
      · have : toVal tbl.length v n = .ex ((List.range n).map (fun k => ByteDesc.sym tbl.length k)) := by
          unfold toVal
          split
          · rename_i c s; exact absurd ⟨c, s, rfl⟩ hc
          · rfl
        rw [this]
        simp [Val.memBytes, enOf, hj]
      · simp only [byteVal, hget, byteAt, Bool.false_eq_true, if_false]
      · intro w k h; cases h; simp
  · have hj' : n - 1 - j < n := by omega
    by_cases hc : ∃ c s, v = .cst c s
    · obtain ⟨c, s, rfl⟩ := hc
      refine ⟨.raw (((c % 2 ^ s) >>> (8 * (n - 1 - j))) % 256), ?_, ?_, ?_⟩
      · simp only [toVal, Val.memBytes, enOf, if_true]
        rw [List.getElem?_reverse (by simpa using hj)]
        simp [hj']
      · simp [byteVal, byteAt, ideal]
      · intro w k h; cases h
    · refine ⟨.sym tbl.length (n - 1 - j), ?_, ?_, ?_⟩
      · have : toVal tbl.length v n = .ex ((List.range n).map (fun k => ByteDesc.sym tbl.length k)) := by
          unfold toVal
          split
          · rename_i c s; exact absurd ⟨c, s, rfl⟩ hc
          · rfl
        rw [this]
        simp only [Val.memBytes, enOf, if_true]
        rw [List.getElem?_reverse (by simpa using hj)]
        simp [hj']
      · simp only [byteVal, hget, byteAt, if_true]
      · intro w k h; cases h; simp

theorem memWrite_spec (m : MapSt) (b : E) (d : Int) (v : E) (be : Bool)
    (wf : ZonesWF m.zones) (hat : AtomsOK m) (hn : 0 < v.size / 8) :
    ZonesWF (memWrite m b d v be).zones ∧ AtomsOK (memWrite m b d v be) ∧
    (memWrite m b d v be).tbl = m.tbl ++ [v] ∧ (memWrite m b d v be).lastw = m.lastw ∧
    (memWrite m b d v be).entries = m.entries.filter (fun e => e.loc != .ptr b d) ∧
    ∀ zk x, zbyte sem σ (memWrite m b d v be) zk x =
      if zk = (zref b d).1 ∧ (zref b d).2 ≤ x ∧ x < (zref b d).2 + (nbytes v : Int)
      then some (byteAt (ideal sem σ v) (nbytes v) (x - (zref b d).2).toNat be)
      else zbyte sem σ m zk x := by
  have hnb : nbytes v = v.size / 8 := rfl
  have hlen : 0 < (toVal m.tbl.length v (v.size / 8)).len := by rw [toVal_len]; exact hn
  have hzwf := zoneWF_write (zoneOf m.zones (zref b d).1) (zref b d).2 (toVal m.tbl.length v (v.size / 8))
    (enOf be) (wf _) hlen
  have habs := abs_write (zoneOf m.zones (zref b d).1) (zref b d).2 (toVal m.tbl.length v (v.size / 8))
    (enOf be) (wf _) hlen
  -- description of the new abstraction of every zone
  have hnew : ∀ zk x, (zoneOf (memWrite m b d v be).zones zk).abs x =
      if zk = (zref b d).1 ∧ (zref b d).2 ≤ x ∧ x < (zref b d).2 + (nbytes v : Int)
      then ((toVal m.tbl.length v (v.size / 8)).memBytes (enOf be))[(x - (zref b d).2).toNat]?
      else (zoneOf m.zones zk).abs x := by
    intro zk x
    simp only [memWrite]
    rw [zoneOf_setZone]
    by_cases hz : zk = (zref b d).1
    · subst hz
      simp only [if_true, true_and]
      rw [habs]
      simp only [override, absWrite]
      by_cases h1 : (zref b d).2 ≤ x
      · simp only [h1, if_true, true_and]
        by_cases h2 : x < (zref b d).2 + (nbytes v : Int)
        · simp only [h2, if_true]
          have hj : (x - (zref b d).2).toNat < v.size / 8 := by omega
          obtain ⟨bd, hbd, _⟩ := toVal_bytes sem σ m.tbl v (v.size / 8) be _ hj
          rw [hbd]; rfl
        · simp only [h2, if_false]
          have : ((toVal m.tbl.length v (v.size / 8)).memBytes (enOf be))[(x - (zref b d).2).toNat]? = none := by
            rw [List.getElem?_eq_none_iff, Amoco.Memory.Val.memBytes_length, toVal_len]
            omega
          rw [this]; rfl
      · simp [h1]
    · simp [hz]
  refine ⟨?_, ?_, rfl, rfl, rfl, ?_⟩
  · simp only [memWrite]
    exact wf.set _ _ hzwf
  · intro zk x w k hx
    rw [hnew] at hx
    have htl : (memWrite m b d v be).tbl.length = m.tbl.length + 1 := by simp [memWrite]
    rw [htl]
    split at hx
    · rename_i hc
      have hj : (x - (zref b d).2).toNat < v.size / 8 := by omega
      obtain ⟨bd, hbd, _, hb3⟩ := toVal_bytes sem σ m.tbl v (v.size / 8) be _ hj
      rw [hbd] at hx
      have := hb3 w k (Option.some.inj hx)
      simpa using this
    · have := hat zk x w k hx
      omega
  · intro zk x
    unfold zbyte
    rw [hnew]
    have htbl : (memWrite m b d v be).tbl = m.tbl ++ [v] := rfl
    rw [htbl]
    split
    · rename_i hc
      have hj : (x - (zref b d).2).toNat < v.size / 8 := by omega
      obtain ⟨bd, hbd, hb2, _⟩ := toVal_bytes sem σ m.tbl v (v.size / 8) be _ hj
      rw [hbd]
      simp [hb2, hnb]
    · cases hx : (zoneOf m.zones zk).abs x with
      | none => rfl
      | some bd =>
        simp only [Option.map_some]
        rw [byteVal_append]
        intro w k hbd
        subst hbd
        exact hat zk x w k hx

end Amoco.Mapper
