/-
  Amoco.Proofs.ExprCst — constant folding: the `cst` operator table computes the reference meaning of
  every operator (one lemma per operator, all widths and values), and returns the dictated width.
-/
import Amoco.Proofs.ExprArith

namespace Amoco.Bits

open Amoco.Expr

/-- what the constant table returns, as `(value, size)` -/
def cstOut : R Expr → Option (Nat × Nat)
  | .ok (.cst v s _) => some (v, s)
  | _ => none

theorem cstOut_mkCst (x : Int) (s : Nat) : cstOut (.ok (mkCst x s)) = some (wrap s x, s) := rfl

theorem wrap_cstValue_add (lv ls : Nat) (lf : Bool) (rv rs : Nat) (rf : Bool) (hl : lv < 2 ^ ls) (hr : rv < 2 ^ ls)
    (hs : rs = ls) : wrap ls (cstValue lv ls lf + cstValue rv rs rf) = wrap ls ((lv : Int) + rv) := by
  subst hs
  rw [← wrap_add_left, ← wrap_add_right, wrap_cstValue _ _ _ hl, wrap_cstValue _ _ _ hr]

/-- `+` on constants -/
theorem cst_add (lv ls : Nat) (lf : Bool) (rv : Nat) (rf sg : Bool) (hl : lv < 2 ^ ls) (hr : rv < 2 ^ ls) :
    cstOut (cstApi Op.add lv ls lf rv ls rf) = some (binSem Op.add sg ls lv rv, ls) := by
  simp only [cstApi, cstOut_mkCst, binSem_add]
  rw [wrap_cstValue_add _ _ _ _ _ _ hl hr rfl]

/-- `-` on constants -/
theorem cst_sub (lv ls : Nat) (lf : Bool) (rv : Nat) (rf sg : Bool) (hl : lv < 2 ^ ls) (hr : rv < 2 ^ ls) :
    cstOut (cstApi Op.sub lv ls lf rv ls rf) = some (binSem Op.sub sg ls lv rv, ls) := by
  simp only [cstApi, cstOut_mkCst, binSem_sub]
  rw [← wrap_sub_left, ← wrap_sub_right, wrap_cstValue _ _ _ hl, wrap_cstValue _ _ _ hr]

/-- `*` on constants -/
theorem cst_mul (lv ls : Nat) (lf : Bool) (rv : Nat) (rf sg : Bool) (hl : lv < 2 ^ ls) (hr : rv < 2 ^ ls) :
    cstOut (cstApi Op.mul lv ls lf rv ls rf) = some (binSem Op.mul sg ls lv rv, ls) := by
  simp only [cstApi, cstOut_mkCst]
  rw [← wrap_mul_left, ← wrap_mul_right, wrap_cstValue _ _ _ hl, wrap_cstValue _ _ _ hr]
  simp only [binSem]
  rw [← wrap_of_nat]; push_cast; rfl

/-- `**` on constants with one declared signedness -/
theorem cst_mul2 (lv ls : Nat) (rv : Nat) (sg : Bool) :
    cstOut (cstApi Op.mul2 lv ls sg rv ls sg) = some (binSem Op.mul2 sg ls lv rv, 2 * ls) := by
  simp only [cstApi, cstOut_mkCst, binSem]
  cases sg
  · simp only [cstValue_unsigned]
    rw [← wrap_of_nat]; push_cast; rfl
  · simp only [cstValue_signed]; rfl

/-- `/` on constants with one declared signedness (floor for the signed reading), divisor ≠ 0 -/
theorem cst_div (lv ls : Nat) (rv : Nat) (sg : Bool) (hl : lv < 2 ^ ls) (h0 : cstValue rv ls sg ≠ 0) :
    cstOut (cstApi Op.div lv ls sg rv ls sg) = some (binSem Op.div sg ls lv rv, ls) := by
  simp only [cstApi, h0, if_false, cstOut_mkCst, binSem]
  cases sg
  · simp only [cstValue_unsigned]
    have : Int.fdiv (lv : Int) (rv : Int) = ((lv / rv : Nat) : Int) := by
      rw [Int.fdiv_eq_ediv_of_nonneg _ (by omega)]; rfl
    rw [this, wrap_of_nat]; rfl
  · simp only [cstValue_signed]; rfl

/-- `%` on constants with one declared signedness, divisor ≠ 0 -/
theorem cst_mod (lv ls : Nat) (rv : Nat) (sg : Bool) (hl : lv < 2 ^ ls) (h0 : cstValue rv ls sg ≠ 0) :
    cstOut (cstApi Op.mod lv ls sg rv ls sg) = some (binSem Op.mod sg ls lv rv, ls) := by
  simp only [cstApi, h0, if_false, cstOut_mkCst, binSem]
  cases sg
  · simp only [cstValue_unsigned]
    have : Int.fmod (lv : Int) (rv : Int) = ((lv % rv : Nat) : Int) := by
      rw [Int.fmod_eq_emod_of_nonneg _ (by omega)]; rfl
    rw [this, wrap_of_nat]; rfl
  · simp only [cstValue_signed]; rfl

theorem and_lt (a b w : Nat) (h : a < 2 ^ w) : a &&& b < 2 ^ w := Nat.lt_of_le_of_lt Nat.and_le_left h

/-- `&` `|` `^` on constants -/
theorem cst_and (lv ls : Nat) (lf : Bool) (rv : Nat) (rf sg : Bool) (hl : lv < 2 ^ ls) :
    cstOut (cstApi Op.and lv ls lf rv ls rf) = some (binSem Op.and sg ls lv rv, ls) := by
  simp only [cstApi, cstOut_mkCst, binSem]
  rw [wrap_of_lt _ _ (and_lt _ _ _ hl)]

theorem cst_or (lv ls : Nat) (lf : Bool) (rv : Nat) (rf sg : Bool) (hl : lv < 2 ^ ls) (hr : rv < 2 ^ ls) :
    cstOut (cstApi Op.or lv ls lf rv ls rf) = some (binSem Op.or sg ls lv rv, ls) := by
  simp only [cstApi, cstOut_mkCst, binSem]
  rw [wrap_of_lt _ _ (Nat.or_lt_two_pow hl hr)]

theorem cst_xor (lv ls : Nat) (lf : Bool) (rv : Nat) (rf sg : Bool) (hl : lv < 2 ^ ls) (hr : rv < 2 ^ ls) :
    cstOut (cstApi Op.xor lv ls lf rv ls rf) = some (binSem Op.xor sg ls lv rv, ls) := by
  simp only [cstApi, cstOut_mkCst, binSem]
  rw [wrap_of_lt _ _ (Nat.xor_lt_two_pow hl hr)]

/-- `<<` on constants by any amount (the repaired table: amounts ≥ size give 0) -/
theorem cst_lsl (lv ls : Nat) (lf : Bool) (rv rs : Nat) (rf sg : Bool) (hl : lv < 2 ^ ls) :
    cstOut (cstApi Op.lsl lv ls lf rv rs rf) = some (binSem Op.lsl sg ls lv rv, ls) := by
  simp only [cstApi, binSem]
  by_cases h : rv < ls
  · have h' : ¬ rv ≥ ls := by omega
    simp only [h, h', if_true, if_false, cstOut_mkCst]
    rw [← wrap_mul_left, wrap_cstValue _ _ _ hl, Nat.shiftLeft_eq, ← wrap_of_nat]; push_cast; rfl
  · have h' : rv ≥ ls := by omega
    simp only [h, h', if_true, if_false, cstOut_mkCst]; rfl

/-- `>>` (logical) on constants by any amount: `cst.__rshift__` clears `sf` first -/
theorem cst_lsr (lv ls : Nat) (rv rs : Nat) (rf sg : Bool) (hl : lv < 2 ^ ls) :
    cstOut (cstApi Op.lsr lv ls false rv rs rf) = some (binSem Op.lsr sg ls lv rv, ls) := by
  simp only [cstApi, cstOut_mkCst, binSem, cstValue_unsigned]
  have : ((lv : Int) >>> rv) = ((lv >>> rv : Nat) : Int) := by
    rw [Int.shiftRight_eq_div_pow, Nat.shiftRight_eq_div_pow]; push_cast; rfl
  rw [this, wrap_of_lt]
  exact Nat.lt_of_le_of_lt (Nat.shiftRight_le _ _) hl

/-- `//` (arithmetic shift right) on constants by any amount: `cst.__floordiv__` sets `sf` first -/
theorem cst_asr (lv ls : Nat) (rv rs : Nat) (rf sg : Bool) :
    cstOut (cstApi Op.asr lv ls true rv rs rf) = some (binSem Op.asr sg ls lv rv, ls) := by
  simp only [cstApi, cstOut_mkCst, binSem, cstValue_signed]

/-- `==` `!=` on constants -/
theorem cst_eq (lv ls : Nat) (lf : Bool) (rv : Nat) (rf sg : Bool) :
    cstOut (cstApi Op.eq lv ls lf rv ls rf) = some (binSem Op.eq sg ls lv rv, 1) := by
  simp only [cstApi, binSem, ofBool, b2n, cstOut]

theorem cst_neq (lv ls : Nat) (lf : Bool) (rv : Nat) (rf sg : Bool) :
    cstOut (cstApi Op.neq lv ls lf rv ls rf) = some (binSem Op.neq sg ls lv rv, 1) := by
  simp only [cstApi, binSem, ofBool, b2n, cstOut]

/-- ordered comparisons on constants with one declared signedness -/
theorem cst_cmp (o : Op) (ho : o = Op.lt ∨ o = Op.le ∨ o = Op.ge ∨ o = Op.gt) (lv ls rv : Nat) (sg : Bool) :
    cstOut (cstApi o lv ls sg rv ls sg) = some (binSem o sg ls lv rv, 1) := by
  rcases ho with h | h | h | h <;> subst h <;> cases sg <;>
    simp only [cstApi, binSem, ofBool, b2n, cstOut, cstValue_signed, cstValue_unsigned] <;> simp

/-- `<.` `>=.` on constants: the repaired helpers clear both sign flags, then compare -/
theorem cst_ltu (lv ls rv : Nat) (sg : Bool) :
    cstOut (cstApi Op.lt lv ls false rv ls false) = some (binSem Op.ltu sg ls lv rv, 1) := by
  simp only [cstApi, binSem, ofBool, b2n, cstOut, cstValue_unsigned]; simp

theorem cst_geu (lv ls rv : Nat) (sg : Bool) :
    cstOut (cstApi Op.ge lv ls false rv ls false) = some (binSem Op.geu sg ls lv rv, 1) := by
  simp only [cstApi, binSem, ofBool, b2n, cstOut, cstValue_unsigned]; simp

/-- the unchanged tree compares the *signed* readings in `ltu`/`geu` (`x.sf = y.sf = True`): witness -/
theorem ltu_signed_is_wrong :
    cstOut (cstApi Op.lt 0x80000000 32 true 1 32 true) ≠ some (binSem Op.ltu false 32 0x80000000 1, 1) := by
  decide

/-- unary operators on constants -/
theorem cst_neg (v s : Nat) (f : Bool) (h : v < 2 ^ s) : wrap s (-(cstValue v s f)) = unSem Op.sub s v := by
  show _ = wrap s (-(v : Int))
  rw [← wrap_neg, wrap_cstValue _ _ _ h]

theorem cst_not (v s : Nat) (h : v < 2 ^ s) : wrap s ((mask s - v % 2 ^ s : Nat) : Int) = unSem Op.not s v := by
  rw [wrap_of_nat]
  unfold mask unSem
  apply Nat.mod_eq_of_lt
  have := two_pow_pos' s
  omega

/-- rotation of a constant by a constant amount (repaired helper: amount reduced modulo the width) -/
theorem ror_formula (a w n : Nat) (ha : a < 2 ^ w) :
    ((a >>> (n % w)) ||| ((a <<< (w - n % w)) % 2 ^ w)) = binSem Op.ror false w a n := by
  simp only [binSem]
  apply Nat.eq_of_testBit_eq; intro j
  rw [Nat.testBit_or, Nat.testBit_mod_two_pow, Nat.testBit_mod_two_pow, Nat.testBit_or]
  by_cases hj : j < w
  · simp [hj]
  · have : (a >>> (n % w)).testBit j = false := by
      rw [Nat.testBit_shiftRight]; exact testBit_of_lt a w _ ha (by omega)
    simp [hj, this]

theorem rol_formula (a w n : Nat) (ha : a < 2 ^ w) :
    (((a <<< (n % w)) % 2 ^ w) ||| (a >>> (w - n % w))) = binSem Op.rol false w a n := by
  simp only [binSem]
  apply Nat.eq_of_testBit_eq; intro j
  rw [Nat.testBit_or, Nat.testBit_mod_two_pow, Nat.testBit_mod_two_pow, Nat.testBit_or]
  by_cases hj : j < w
  · simp [hj]
  · have : (a >>> (w - n % w)).testBit j = false := by
      rw [Nat.testBit_shiftRight]; exact testBit_of_lt a w _ ha (by omega)
    simp [hj, this]

/-- arithmetic shift by the width or more gives the sign fill -/
theorem asr_ge_width (a w n : Nat) (ha : a < 2 ^ w) (h : w ≤ n) (sg : Bool) :
    binSem Op.asr sg w a n = if a.testBit (w - 1) then 2 ^ w - 1 else 0 := by
  simp only [binSem, toInt]
  have hc : ((2 ^ w : Nat) : Int) = (2 : Int) ^ w := by push_cast; rfl
  have hp : (0 : Int) < (2 : Int) ^ w := by positivity
  have hwn : (2 : Int) ^ w ≤ 2 ^ n := by exact_mod_cast Nat.pow_le_pow_right (by decide) h
  have hpos : (0 : Int) < 2 ^ n := by positivity
  have haI : (a : Int) < (2 : Int) ^ w := by exact_mod_cast ha
  have ha0 : (0 : Int) ≤ (a : Int) := by omega
  by_cases hb : a.testBit (w - 1)
  · simp only [hb, if_true]
    have : ((a : Int) - ((2 ^ w : Nat) : Int)) >>> n = -1 := by
      rw [Int.shiftRight_eq_div_pow, hc]
      have := (Int.ediv_emod_unique (a := (a : Int) - (2 : Int) ^ w) (b := (2 : Int) ^ n)
                (q := -1) (r := (a : Int) - (2 : Int) ^ w + 2 ^ n) hpos).mpr
      exact (this ⟨by ring, by linarith, by linarith⟩).1
    rw [this]
    unfold wrap
    rw [hc]
    have e : (-1 : Int) % ((2 : Int) ^ w) = (2 : Int) ^ w - 1 := by
      have := (Int.ediv_emod_unique (a := (-1 : Int)) (b := (2 : Int) ^ w) (q := -1)
                (r := (2 : Int) ^ w - 1) hp).mpr
      exact (this ⟨by ring, by linarith, by linarith⟩).2
    rw [e]
    have : ((2 : Int) ^ w - 1).toNat = 2 ^ w - 1 := by
      rw [← hc]
      have := two_pow_pos' w
      omega
    exact this
  · simp only [hb]
    have : ((a : Int)) >>> n = 0 := by
      rw [Int.shiftRight_eq_div_pow]
      have hcn : ((2 ^ n : Nat) : Int) = (2 : Int) ^ n := by push_cast; rfl
      exact Int.ediv_eq_zero_of_lt ha0 (by first | linarith | (rw [hcn]; linarith) | (push_cast; linarith))
    simp [this, wrap]

end Amoco.Bits
