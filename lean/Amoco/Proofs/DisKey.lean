/-
  Bridge between the spec-level acceptance test of `ispec.decode` (Amoco.Spec.decode) and the
  search key of `disassembler.__call__` (Amoco.Dis.key): a spec that accepts a byte string has its
  (justified) fixed bits present in the key.  This discharges the hypothesis of the routing lemma.
-/
import Amoco.Model.Spec
import Amoco.Model.Dis

namespace Amoco

theorem testBit_leVal (l : List Nat) (k : Nat) :
    (leVal l).testBit k = ((l.getD (k / 8) 0) % 256).testBit (k % 8) := by
  induction l generalizing k with
  | nil => simp [leVal]
  | cons b bs ih =>
    have hb : b % 256 < 2 ^ 8 := Nat.mod_lt _ (by decide)
    have : leVal (b :: bs) = 2 ^ 8 * leVal bs + b % 256 := by simp [leVal]; omega
    rw [this, Nat.testBit_two_pow_mul_add _ hb]
    by_cases hk : k < 8
    · have h0 : k / 8 = 0 := by omega
      have h1 : k % 8 = k := by omega
      simp [hk, h0, h1]
    · have h0 : k / 8 = (k - 8) / 8 + 1 := by omega
      have h1 : k % 8 = (k - 8) % 8 := by omega
      simp only [hk, ↓reduceIte, ih, h0, h1, List.getD_cons_succ]

theorem getD_take (l : List Nat) (n i : Nat) (h : i < n) : (l.take n).getD i 0 = l.getD i 0 := by
  simp [List.getD_eq_getElem?_getD, h]

theorem mask_bit_lt {m n k : Nat} (hm : m < 2 ^ n) (hk : m.testBit k = true) : k < n := by
  by_cases h : k < n
  · exact h
  · have : m < 2 ^ k := Nat.lt_of_lt_of_le hm (Nat.pow_le_pow_right (by decide) (by omega))
    rw [Nat.testBit_lt_two_pow this] at hk
    cases hk

namespace Dis

open Amoco.Spec in
/-- little-endian fetch: an accepting spec's fixed bits are in the search key. -/
theorem le_accept_key (s : Spec) (bytes : List Nat) (maxlen : Nat)
    (h8 : s.fixSize % 8 = 0) (hm : s.fixSize / 8 ≤ maxlen) (hmask : s.mask < 2 ^ s.fixSize)
    (hacc : (decode s bytes false).isSome) :
    key false maxlen bytes &&& s.mask = s.fix := by
  have hw : word s bytes false &&& s.mask = s.fix := by
    unfold decode at hacc
    split at hacc
    · cases hacc
    · split at hacc
      · cases hacc
      · rename_i h; simpa using h
  rw [← hw]
  apply Nat.eq_of_testBit_eq
  intro k
  rw [Nat.testBit_and, Nat.testBit_and]
  by_cases hk : s.mask.testBit k = true
  · have hlt := mask_bit_lt hmask hk
    have hk8 : k / 8 < s.fixSize / 8 := by omega
    simp only [hk, Bool.and_true]
    unfold key word
    simp only [Bool.false_eq_true, ↓reduceIte, Nat.testBit_mod_two_pow, hlt, decide_true, Bool.true_and]
    rw [testBit_leVal, testBit_leVal, getD_take _ _ _ hk8, getD_take _ _ _ (Nat.lt_of_lt_of_le hk8 hm)]
  · have : s.mask.testBit k = false := by simpa using hk
    simp [this]

theorem getD_reverse (l : List Nat) (i : Nat) (h : i < l.length) :
    l.reverse.getD i 0 = l.getD (l.length - 1 - i) 0 := by
  simp [List.getD_eq_getElem?_getD, List.getElem?_reverse h]

open Amoco.Spec in
/-- big-endian fetch: the key is left-justified to `maxlen*8` bits, and so are mask and fix. -/
theorem be_accept_key (s : Spec) (bytes : List Nat) (maxlen : Nat)
    (h8 : s.fixSize % 8 = 0) (hm : s.fixSize / 8 ≤ maxlen) (hmask : s.mask < 2 ^ s.fixSize)
    (hacc : (decode s bytes true).isSome) :
    key true maxlen bytes &&& (s.mask <<< (maxlen * 8 - s.fixSize)) = s.fix <<< (maxlen * 8 - s.fixSize) := by
  have hlen : s.fixSize / 8 ≤ bytes.length := by
    unfold decode at hacc
    split at hacc
    · cases hacc
    · omega
  have hw : word s bytes true &&& s.mask = s.fix := by
    unfold decode at hacc
    split at hacc
    · cases hacc
    · split at hacc
      · cases hacc
      · rename_i h; simpa using h
  rw [← hw]
  apply Nat.eq_of_testBit_eq
  intro k
  simp only [Nat.testBit_and, Nat.testBit_shiftLeft]
  by_cases hk2 : k ≥ maxlen * 8 - s.fixSize
  · by_cases hk : s.mask.testBit (k - (maxlen * 8 - s.fixSize)) = true
    · have hlt := mask_bit_lt hmask hk
      simp only [hk2, decide_true, hk, Bool.and_true, Bool.true_and]
      unfold key word
      simp only [↓reduceIte, Nat.testBit_shiftLeft, Nat.testBit_mod_two_pow, hlt, decide_true, Bool.true_and]
      have hL : (bytes.take maxlen).length = min maxlen bytes.length := List.length_take
      have hB : (bytes.take (s.fixSize / 8)).length = s.fixSize / 8 := by
        rw [List.length_take]; omega
      have hge : k ≥ maxlen * 8 - 8 * (bytes.take maxlen).length := by rw [hL]; omega
      simp only [hge, decide_true, Bool.true_and]
      rw [testBit_leVal, testBit_leVal]
      have e1 : (k - (maxlen * 8 - 8 * (bytes.take maxlen).length)) % 8 = (k - (maxlen * 8 - s.fixSize)) % 8 := by
        rw [hL]; omega
      rw [e1]
      rw [getD_reverse _ _ (by rw [hL]; omega), getD_reverse _ _ (by rw [hB]; omega)]
      rw [getD_take _ _ _ (by rw [hL]; omega), getD_take _ _ _ (by rw [hB]; omega)]
      congr 3
      rw [hL, hB]; omega
    · have : s.mask.testBit (k - (maxlen * 8 - s.fixSize)) = false := by simpa using hk
      simp [this]
  · simp [hk2]

end Dis
end Amoco
