/-
  Helper lemmas for C18: runs of one consecutive instruction stream, by instruction index.
-/
import Amoco.Proofs.CfgBlocks

namespace Amoco.Cfg

open Amoco.Blocks

/-- an instruction stream as the sweep yields it: consecutive, every instruction at least one byte -/
structure StreamOK (S : List Instr) : Prop where
  cons : Consecutive S
  pos : ∀ x ∈ S, 0 < x.length

/-- address of the first instruction -/
def base (S : List Instr) : Nat := (address? S).getD 0

/-- address of instruction `k` of the stream (`k = S.length`: the end address) -/
def addrOf (S : List Instr) (k : Nat) : Nat := base S + blen (S.take k)

/-- instructions `s .. e-1` of the stream -/
def run (S : List Instr) (s e : Nat) : Block := (S.take e).drop s

variable {S : List Instr}

theorem run_length (s e : Nat) (he : e ≤ S.length) : (run S s e).length = e - s := by
  simp [run]; omega

theorem run_eq_nil_iff (s e : Nat) (he : e ≤ S.length) : run S s e = [] ↔ e ≤ s := by
  rw [← List.length_eq_zero_iff, run_length s e he]; omega

theorem run_append (s p e : Nat) (h1 : s ≤ p) (h2 : p ≤ e) (he : e ≤ S.length) :
    run S s p ++ run S p e = run S s e := by
  unfold run
  have : S.take p = (S.take e).take p := by rw [List.take_take]; congr; omega
  rw [this]
  have h3 : ((S.take e).take p).drop s ++ (S.take e).drop p = (S.take e).drop s := by
    conv => rhs; rw [← List.take_append_drop p (S.take e)]
    rw [List.drop_append_of_le_length]
    simp; omega
  exact h3

theorem run_take (s p e : Nat) (h1 : s ≤ p) (h2 : p ≤ e) : (run S s e).take (p - s) = run S s p := by
  unfold run
  rw [List.take_drop]
  rw [List.take_take]
  congr 2
  omega

theorem run_drop (s p e : Nat) (h1 : s ≤ p) : (run S s e).drop (p - s) = run S p e := by
  unfold run
  rw [List.drop_drop]
  congr 1
  omega

theorem run_full : run S 0 S.length = S := by simp [run]

theorem blen_pos (hS : StreamOK S) (s e : Nat) (h : s < e) (he : e ≤ S.length) : 0 < blen (run S s e) := by
  have hne : run S s e ≠ [] := by
    intro h0; rw [run_eq_nil_iff s e he] at h0; omega
  cases hr : run S s e with
  | nil => exact absurd hr hne
  | cons x r =>
    have hx : x ∈ S := by
      have : x ∈ run S s e := by rw [hr]; simp
      exact List.mem_of_mem_take (List.mem_of_mem_drop this)
    have := hS.pos x hx
    simp; omega

theorem addrOf_add (s e : Nat) (h : s ≤ e) (he : e ≤ S.length) : addrOf S s + blen (run S s e) = addrOf S e := by
  have h1 := run_append (S := S) 0 s e (by omega) h he
  have h2 : run S 0 s = S.take s := by simp [run]
  have h3 : run S 0 e = S.take e := by simp [run]
  rw [h2, h3] at h1
  unfold addrOf
  rw [← h1, blen_append]; omega

theorem addrOf_lt (hS : StreamOK S) (s e : Nat) (h : s < e) (he : e ≤ S.length) : addrOf S s < addrOf S e := by
  have := addrOf_add (S := S) s e (by omega) he
  have := blen_pos hS s e h he
  omega

theorem addrOf_le (s e : Nat) (h : s ≤ e) (he : e ≤ S.length) : addrOf S s ≤ addrOf S e := by
  have := addrOf_add (S := S) s e h he
  omega

theorem addrOf_lt_iff (hS : StreamOK S) (s e : Nat) (hs : s ≤ S.length) (he : e ≤ S.length) :
    addrOf S s < addrOf S e ↔ s < e := by
  constructor
  · intro h
    apply Nat.lt_of_not_le
    intro hle
    have := addrOf_le (S := S) e s hle hs
    omega
  · intro h; exact addrOf_lt hS s e h he

theorem addrOf_le_iff (hS : StreamOK S) (s e : Nat) (hs : s ≤ S.length) (he : e ≤ S.length) :
    addrOf S s ≤ addrOf S e ↔ s ≤ e := by
  constructor
  · intro h
    apply Nat.le_of_not_lt
    intro hlt
    have := addrOf_lt hS e s hlt hs
    omega
  · intro h; exact addrOf_le s e h he

theorem addrOf_inj (hS : StreamOK S) (s e : Nat) (hs : s ≤ S.length) (he : e ≤ S.length)
    (h : addrOf S s = addrOf S e) : s = e := by
  have h1 := (addrOf_le_iff hS s e hs he).mp (by omega)
  have h2 := (addrOf_le_iff hS e s he hs).mp (by omega)
  omega

theorem addrOf_getElem (hS : StreamOK S) (k : Nat) (hk : k < S.length) : S[k].addr = addrOf S k := by
  have hb : S = S.take k ++ S[k] :: S.drop (k + 1) := by
    rw [← List.drop_eq_getElem_cons hk, List.take_append_drop]
  have ha : address? S = some (base S) := by
    unfold base
    cases S with
    | nil => simp at hk
    | cons x r => simp [address?]
  have hc : Consecutive (S.take k ++ S[k] :: S.drop (k + 1)) := by rw [← hb]; exact hS.cons
  have ha' : address? (S.take k ++ S[k] :: S.drop (k + 1)) = some (base S) := by rw [← hb]; exact ha
  exact consecutive_addr' (S.take k) S[k] (S.drop (k + 1)) (base S) hc ha'

theorem run_getElem (s e k : Nat) (he : e ≤ S.length) (hk : k < e - s) :
    (run S s e)[k]'(by rw [run_length s e he]; exact hk) = S[s + k]'(by omega) := by
  simp [run]

theorem address_run (hS : StreamOK S) (s e : Nat) (h : s < e) (he : e ≤ S.length) :
    address? (run S s e) = some (addrOf S s) := by
  have hl : 0 < (run S s e).length := by rw [run_length s e he]; omega
  have : (run S s e).head? = some ((run S s e)[0]) := by
    rw [List.head?_eq_getElem?]; simp [hl]
  unfold address?
  rw [this]
  simp only [Option.map_some]
  rw [run_getElem s e 0 he (by omega)]
  simp [addrOf_getElem hS s (by omega)]

theorem consecutive_run (hS : StreamOK S) (s e : Nat) : Consecutive (run S s e) :=
  consecutive_drop _ _ (consecutive_take _ _ hS.cons)

/-- the address list of a run -/
theorem run_addr_getElem (hS : StreamOK S) (s e k : Nat) (he : e ≤ S.length) (hk : k < e - s) :
    ((run S s e).map (·.addr))[k]'(by simp [run_length s e he]; exact hk) = addrOf S (s + k) := by
  simp only [List.getElem_map]
  rw [run_getElem s e k he hk, addrOf_getElem hS]

theorem cut_run (hS : StreamOK S) (s p e : Nat) (h1 : s ≤ p) (h2 : p < e) (he : e ≤ S.length) :
    cut (run S s e) (addrOf S p) = (run S s p, e - p) := by
  have hidx : ((run S s e).map (·.addr)).idxOf? (addrOf S p) = some (p - s) := by
    rw [List.idxOf?_eq_some_iff]
    refine ⟨by simp [run_length s e he]; omega, ?_, ?_⟩
    · rw [run_addr_getElem hS s e (p - s) he (by omega)]
      congr 1; omega
    · intro j hj
      rw [run_addr_getElem hS s e j he (by omega)]
      intro heq
      have := addrOf_inj hS (s + j) p (by omega) (by omega) heq
      omega
  unfold cut
  rw [hidx]
  simp only
  rw [run_take s p e h1 (by omega), run_length s e he]
  congr 1
  omega

theorem offsets_run_getElem (s e k : Nat) (hse : s ≤ e) (he : e ≤ S.length) (hk : k ≤ e - s) :
    (offsets (run S s e) 0)[k]'(by rw [offsets_length, run_length s e he]; omega) = blen (run S s (s + k)) := by
  rw [offsets_getElem]
  have := run_take (S := S) s (s + k) e (by omega) (by omega)
  rw [show s + k - s = k by omega] at this
  rw [this]; omega

theorem blen_run_lt (hS : StreamOK S) (s p q : Nat) (hp : s ≤ p) (hpq : p < q) (hq : q ≤ S.length) :
    blen (run S s p) < blen (run S s q) := by
  have h1 := addrOf_add (S := S) s p hp (by omega)
  have h2 := addrOf_add (S := S) s q (by omega) hq
  have := addrOf_lt hS p q hpq hq
  omega

theorem offsets_run_idxOf (hS : StreamOK S) (s p e : Nat) (h1 : s ≤ p) (h2 : p ≤ e) (he : e ≤ S.length) :
    (offsets (run S s e) 0).idxOf? (blen (run S s p)) = some (p - s) := by
  rw [List.idxOf?_eq_some_iff]
  refine ⟨by rw [offsets_length, run_length s e he]; omega, ?_, ?_⟩
  · rw [offsets_run_getElem s e (p - s) (by omega) he (by omega)]
    congr 2; omega
  · intro j hj
    rw [offsets_run_getElem s e j (by omega) he (by omega)]
    have := blen_run_lt hS s (s + j) p (by omega) (by omega) (by omega)
    omega

/-- `v[len(old):]` for `old` a proper prefix run of `v` -/
theorem getitem_run (hS : StreamOK S) (s p e : Nat) (h1 : s ≤ p) (h2 : p < e) (he : e ≤ S.length) :
    getitem (run S s e) (some (blen (run S s p) : Int)) none = some (run S p e) := by
  have hle : blen (run S s p) ≤ blen (run S s e) := by
    rcases Nat.lt_or_ge p e with h | h
    · exact Nat.le_of_lt (blen_run_lt hS s p e h1 h he)
    · omega
  unfold getitem
  simp only [sliceBound]
  have hneg : ¬ ((blen (run S s p) : Int) < 0) := by omega
  simp only [hneg, if_false, Int.toNat_natCast]
  rw [Nat.min_eq_left hle]
  rw [offsets_run_idxOf hS s p e h1 (by omega) he]
  have := offsets_run_idxOf hS s e e (by omega) (by omega) he
  rw [this]
  simp only
  have ht : (run S s e).take (e - s) = run S s e := by
    rw [List.take_of_length_le]; rw [run_length s e he]; omega
  rw [ht, run_drop s p e h1]
  have hne : run S p e ≠ [] := by
    intro h0; rw [run_eq_nil_iff p e he] at h0; omega
  simp [hne]

/-- a non-empty contiguous part of the stream is a run -/
theorem isInfix_run (v : Block) (hv : v ≠ []) (h : v <:+: S) :
    ∃ s e, s < e ∧ e ≤ S.length ∧ v = run S s e := by
  obtain ⟨pre, post, hS⟩ := h
  refine ⟨pre.length, pre.length + v.length, ?_, ?_, ?_⟩
  · have : 0 < v.length := List.length_pos_iff.mpr hv
    omega
  · rw [← hS]; simp
  · unfold run
    rw [← hS]
    simp [List.take_append]

theorem run_isInfix (s e : Nat) (h : s ≤ e) : run S s e <:+: S := by
  refine ⟨S.take s, S.drop e, ?_⟩
  unfold run
  have h1 : S.take s = (S.take e).take s := by rw [List.take_take]; congr; omega
  rw [h1, List.take_append_drop, List.take_append_drop]

end Amoco.Cfg
