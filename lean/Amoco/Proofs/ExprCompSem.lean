/-
  Amoco.Proofs.ExprCompSem — the VALUE of a part table (`idealParts`) under `restruct` when every part is a
  constant: the parts of a tiled table are merged into ONE constant whose value is the composition.
  (used by `eval_sound`: under a total constant environment `comp.eval` returns a constant)
-/
import Amoco.Proofs.ExprEvalWidth
import Amoco.Proofs.ExprCst

namespace Amoco.Expr

open Amoco.Bits

/-- contribution of one part to the value of the table -/
def contrib (ρ : Val) (p : Part) : Nat := ((ideal ρ p.2.2 % 2 ^ (p.2.1 - p.1)) <<< p.1)

theorem idealParts_cons (ρ : Val) (p : Part) (ps : List Part) :
    idealParts ρ (p :: ps) = contrib ρ p ||| idealParts ρ ps := by
  obtain ⟨lo, hi, e⟩ := p
  simp only [idealParts, contrib]

theorem idealParts_nil (ρ : Val) : idealParts ρ [] = 0 := by simp only [idealParts]

theorem idealParts_append (ρ : Val) (ps qs : List Part) :
    idealParts ρ (ps ++ qs) = idealParts ρ ps ||| idealParts ρ qs := by
  induction ps with
  | nil => simp [idealParts_nil]
  | cons p tl ih => rw [List.cons_append, idealParts_cons, idealParts_cons, ih, Nat.or_assoc]

theorem idealParts_popKey (ρ : Val) {lo hi : Nat} {e : Expr} : ∀ {ps : List Part}, findKey lo hi ps = some e →
    idealParts ρ ps = contrib ρ (lo, hi, e) ||| idealParts ρ (popKey lo hi ps) := by
  intro ps
  induction ps with
  | nil => intro h; simp [findKey] at h
  | cons q tl ih =>
    obtain ⟨a, b, x⟩ := q
    intro h
    simp only [findKey] at h
    simp only [popKey]
    split
    · rename_i hk
      simp only [hk, if_true] at h
      simp only [Bool.and_eq_true, beq_iff_eq] at hk
      obtain ⟨rfl, rfl⟩ := hk
      cases h
      rw [idealParts_cons]
    · rename_i hk
      simp only [hk] at h
      rw [idealParts_cons, idealParts_cons, ih h]
      rw [← Nat.or_assoc, ← Nat.or_assoc, Nat.or_comm (contrib ρ (a, b, x))]

/-- all parts are constants -/
def AllCst (ps : List Part) : Prop := ∀ p ∈ ps, p.2.2.isCst = true

/-- value of two adjacent constant parts = value of the merged constant -/
theorem contrib_merge (ρ : Val) (alo ahi bhi av as_ bv bs : Nat) (fa fb : Bool) (x : Int)
    (ha : av < 2 ^ as_) (hb : bv < 2 ^ bs) (hsa : as_ = ahi - alo) (hsb : bs = bhi - ahi) (h1 : alo < ahi) (h2 : ahi < bhi)
    (hx : x = (((bv <<< as_) ||| av : Nat) : Int)) :
    contrib ρ (alo, bhi, mkCst x (as_ + bs)) =
      contrib ρ (alo, ahi, cst av as_ fa) ||| contrib ρ (ahi, bhi, cst bv bs fb) := by
  subst hx
  simp only [contrib, ideal, mkCst_v]
  have hcat : ((bv <<< as_) ||| av) = cat av as_ bv := rfl
  rw [hcat, wrap_of_nat]
  have hlt := cat_lt av as_ bv bs ha hb
  have e1 : bhi - alo = as_ + bs := by omega
  rw [e1]
  simp only [Nat.mod_eq_of_lt hlt]
  rw [← hsa, ← hsb]
  simp only [Nat.mod_eq_of_lt ha, Nat.mod_eq_of_lt hb]
  apply Nat.eq_of_testBit_eq
  intro j
  rw [Nat.testBit_or, Nat.testBit_shiftLeft, Nat.testBit_shiftLeft, Nat.testBit_shiftLeft, testBit_cat _ _ _ _ ha]
  by_cases hj : alo ≤ j
  · by_cases hj2 : j - alo < as_
    · have : ¬ ahi ≤ j := by omega
      simp [hj, hj2, this]
    · have h3 : ahi ≤ j := by omega
      have e : j - alo - as_ = j - ahi := by omega
      simp [hj, hj2, h3, e, testBit_of_lt av as_ (j - alo) ha (by omega)]
  · have : ¬ ahi ≤ j := by omega
    simp [hj, this]

/-- in a tiled table the first two parts in position order are adjacent -/
theorem sorted_adjacent {n : Nat} {ps : List Part} (ht : Tiles n ps) {a b : Part} {tl : List Part}
    (hs : sortParts ps = a :: b :: tl) : a.2.1 = b.1 := by
  have hperm := perm_sortParts ps
  have hd := ht.disj
  -- sorted and pairwise disjoint
  have hpw : (sortParts ps).Pairwise (fun p q => p.2.1 ≤ q.1) := by
    have hdp : (sortParts ps).Pairwise (fun p q => p.2.1 ≤ q.1 ∨ q.2.1 ≤ p.1) :=
      (hperm.pairwise_iff (fun {x y} h => h.symm)).mpr hd.pairwise
    have hso := sorted_sortParts ps
    refine (hso.and hdp).imp_of_mem ?_
    intro x y hx hy hxy
    have sx := hd.1 x (hperm.subset hx)
    have sy := hd.1 y (hperm.subset hy)
    rcases hxy.2 with h | h
    · exact h
    · have := hxy.1; omega
  rw [hs] at hpw
  have h1 := (List.pairwise_cons.mp hpw).1 b List.mem_cons_self
  by_contra hne
  have hlt : a.2.1 < b.1 := by omega
  have ha : a ∈ ps := hperm.subset (by rw [hs]; exact List.mem_cons_self)
  have hb : b ∈ ps := hperm.subset (by rw [hs]; exact List.mem_cons_of_mem _ List.mem_cons_self)
  have sb := hd.1 b hb
  have hcnt := ht.2 a.2.1 (by omega)
  -- nobody covers bit a.hi
  have : cnt a.2.1 (sortParts ps) = 0 := by
    rw [hs]
    unfold cnt
    rw [List.countP_eq_zero]
    intro p hp
    unfold covers
    simp only [Bool.and_eq_true, decide_eq_true_eq, not_and, not_lt]
    intro hle
    rcases List.mem_cons.mp hp with rfl | hp
    · omega
    · rcases List.mem_cons.mp hp with rfl | hp
      · omega
      · have h2 := (List.pairwise_cons.mp (List.pairwise_cons.mp hpw).2).1 p hp
        have sp := hd.1 p (hperm.subset (by rw [hs]; exact List.mem_cons_of_mem _ (List.mem_cons_of_mem _ hp)))
        omega
  have e : cnt a.2.1 (sortParts ps) = cnt a.2.1 ps := hperm.countP_eq _
  change cnt a.2.1 ps = 1 at hcnt
  omega

theorem restructFind_first (alo ahi bhi av as_ bv bs : Nat) (fa fb : Bool) (tl : List Part) :
    restructFind ((alo, ahi, cst av as_ fa) :: (ahi, bhi, cst bv bs fb) :: tl)
      = some ((alo, ahi, cst av as_ fa), (ahi, bhi, cst bv bs fb), mkCst (((bv <<< as_) ||| av : Nat) : Int) (as_ + bs)) := by
  simp [restructFind]

/-- `restruct` on a tiled table of constants: one constant covering `[0, n)` whose value is the composition -/
theorem restruct_allcst (ρ : Val) (n : Nat) : ∀ (k : Nat) (ps : List Part), ps.length = k + 1 → Tiles n ps →
    (∀ p ∈ ps, WF p.2.2) → AllCst ps → 0 < n →
    ∃ v f, restructN (k + 1) ps = [(0, n, cst v n f)] ∧ v < 2 ^ n ∧ v = idealParts ρ ps := by
  intro k
  induction k with
  | zero =>
    intro ps hl ht hw hc hn
    match ps, hl with
    | [p], _ =>
      obtain ⟨lo, hi, e⟩ := p
      have hs := ht.1 (lo, hi, e) List.mem_cons_self
      simp only at hs
      have h0 := ht.2 0 hn
      have h1 := ht.2 (n - 1) (by omega)
      change cnt 0 [(lo, hi, e)] = 1 at h0
      change cnt (n - 1) [(lo, hi, e)] = 1 at h1
      rw [cnt_single] at h0 h1
      unfold ind at h0 h1
      have hlo : lo = 0 := by split_ifs at h0 <;> omega
      have hhi : hi = n := by split_ifs at h1 <;> omega
      subst hlo hhi
      have hce := hc _ List.mem_cons_self
      have hwe := hw _ List.mem_cons_self
      simp only at hce hwe
      cases e with
      | cst v s f =>
        simp only [size_cst] at hs
        have hsz : s = hi := by omega
        subst hsz
        simp only [WF] at hwe
        refine ⟨v, f, ?_, hwe.2, ?_⟩
        · simp [restructN, sortParts, insertPart, restructFind]
        · rw [idealParts_cons, idealParts_nil]
          simp [contrib, ideal, Nat.mod_eq_of_lt hwe.2]
      | _ => simp [isCst] at hce
  | succ k ih =>
    intro ps hl ht hw hc hn
    have hperm := perm_sortParts ps
    have hlen : (sortParts ps).length = k + 2 := by rw [hperm.length_eq]; exact hl
    match hs : sortParts ps, hlen with
    | a :: b :: tl, _ =>
      have hadj := sorted_adjacent ht hs
      have ha : a ∈ ps := hperm.subset (by rw [hs]; exact List.mem_cons_self)
      have hb : b ∈ ps := hperm.subset (by rw [hs]; exact List.mem_cons_of_mem _ List.mem_cons_self)
      obtain ⟨alo, ahi, ae⟩ := a
      obtain ⟨blo, bhi, be⟩ := b
      simp only at hadj
      subst hadj
      have hca := hc _ ha
      have hcb := hc _ hb
      simp only at hca hcb
      cases ae with
      | cst av as_ fa =>
        cases be with
        | cst bv bs fb =>
          have hf : restructFind (sortParts ps) = some ((alo, ahi, cst av as_ fa), (ahi, bhi, cst bv bs fb),
              mkCst (((bv <<< as_) ||| av : Nat) : Int) (as_ + bs)) := by
            rw [hs]; exact restructFind_first _ _ _ _ _ _ _ _ _ _
          obtain ⟨hd3, hw3, hc3, hm3, hl3, hA, hB, _, hlt1, hlt2, e1, fA, fB, fA0, fB1⟩ :=
            restruct_step n ps alo ahi ahi bhi _ _ _ ht.disj hw hf
          -- the new table
          have ht3 : Tiles n (popKey ahi bhi (popKey alo ahi (assignKey alo bhi (mkCst (((bv <<< as_) ||| av : Nat) : Int) (as_ + bs)) ps))) :=
            tiles_of_disj_cnt hd3 (fun x hx => by rw [hc3 x]; exact ht.2 x hx)
          have hc3' : AllCst (popKey ahi bhi (popKey alo ahi (assignKey alo bhi (mkCst (((bv <<< as_) ||| av : Nat) : Int) (as_ + bs)) ps))) := by
            intro p hp
            rcases hm3 p hp with h | rfl
            · exact hc p h
            · rfl
          obtain ⟨v, f, hr, hv, hval⟩ := ih _ (by omega) ht3 hw3 hc3' hn
          refine ⟨v, f, ?_, hv, ?_⟩
          · rw [restructN, hf]; exact hr
          · rw [hval, e1]
            -- value of the table is unchanged by the merge
            have sA := ht.1 _ hA
            have sB := ht.1 _ hB
            have wA := hw _ hA
            have wB := hw _ hB
            simp only [size_cst, WF] at sA sB wA wB
            have hmerge := contrib_merge ρ alo ahi bhi av as_ bv bs fa fb _ wA.2 wB.2 (by omega) (by omega) hlt1 hlt2 rfl
            have p1 := idealParts_popKey ρ fA
            have p2 := idealParts_popKey ρ fB
            have q1 := idealParts_popKey ρ fA0
            have q2 := idealParts_popKey ρ fB1
            -- popping commutes with the appended part
            have pop_app : ∀ (lo hi : Nat) (e : Expr) (qs : List Part) (x : Part), findKey lo hi qs = some e →
                popKey lo hi (qs ++ [x]) = popKey lo hi qs ++ [x] := by
              intro lo hi e qs x
              induction qs with
              | nil => intro h; simp [findKey] at h
              | cons q tl ihq =>
                obtain ⟨y1, y2, y3⟩ := q
                intro h
                simp only [findKey] at h
                simp only [List.cons_append, popKey]
                split
                · rfl
                · rename_i hk
                  simp only [hk] at h
                  rw [ihq h]; rfl
            rw [pop_app _ _ _ _ _ fA0, pop_app _ _ _ _ _ fB1, idealParts_append, idealParts_cons, idealParts_nil,
              Nat.or_zero, hmerge, q1, q2]
            rw [Nat.or_comm (idealParts ρ (popKey ahi bhi (popKey alo ahi ps))), ← Nat.or_assoc]
        | _ => simp [isCst] at hcb
      | _ => simp [isCst] at hca

end Amoco.Expr
