import Amoco.Props.C18
open Amoco.Blocks.Props Amoco.Cfg.Props
#print axioms sequence_consecutive
#print axioms sequence_reads
#print axioms sequence_stops
#print axioms blocks_maximal_runs
#print axioms closed_block_last_not_delayed
#print axioms block_raw_concat
#print axioms block_getitem_concat
#print axioms block_cut_concat
#print axioms cfg_partition
#print axioms cfg_fallthrough
#print axioms get_with_address_spec
#print axioms add_vertex_step
