import Amoco.Props.C18
open Amoco.Blocks.Props
#print axioms sequence_consecutive
