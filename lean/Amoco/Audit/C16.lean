import Amoco.Props.C16
open Amoco.Struct.Props
#print axioms layout_eq_abi
#print axioms layout_var_infinite
#print axioms align_least
#print axioms abi_placement_least
#print axioms size_multiple_of_align
#print axioms pack_unpack
#print axioms pack_unpack_exact
#print axioms unpack_len_eq_size
#print axioms unpack_reads_layout
#print axioms pack_unpack_fixed
#print axioms uleb_roundtrip
#print axioms sleb_roundtrip
#print axioms uleb_canonical
#print axioms sleb_canonical
#print axioms uleb_written_is_canonical
