import Amoco.Props.C01Ext
open Amoco.C01Ext
#print axioms rot_zero
#print axioms rot_bits
#print axioms rol_as_ror
#print axioms ror_ror
#print axioms rot_amount
#print axioms slice_ror_nowrap
#print axioms plain_subset
#print axioms simplify_sound_rot
#print axioms oper_sound_rot
#print axioms rotate_sound
#print axioms uoper_sound_rot
#print axioms slice_sound_rot
#print axioms compose_sound_rot
#print axioms catVal_nil
#print axioms catVal_cons
#print axioms extend_sound_rot
#print axioms den_of_isTop
#print axioms simplify_sound_top
#print axioms oper_sound_top
#print axioms cmp_one_flag_reading_not_preserved
#print axioms simplify_sound_cmp_partial
