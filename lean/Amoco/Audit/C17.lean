import Amoco.Props.C17
open Amoco.Frame.Props
#print axioms framework_total
#print axioms exec_total
#print axioms state_roundtrip
#print axioms state_roundtrip_fails_on_duplicates
