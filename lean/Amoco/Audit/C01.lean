import Amoco.Props.C01
#print axioms Amoco.C01.placeholder
