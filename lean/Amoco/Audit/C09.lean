import Amoco.Props.C09
open Amoco.Mapper.Props
#print axioms alias_sound
#print axioms alias_sound_loads
#print axioms alias_sound_memory
#print axioms noalias_sound
