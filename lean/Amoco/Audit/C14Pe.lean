/- Audit of the PE half of C14 / C20: axioms of every property theorem (merged into Audit/C14.lean / C20.lean by the integrator). -/
import Amoco.Props.C14Pe

#print axioms Amoco.Pe.Props.pe_layouts
#print axioms Amoco.Pe.Props.pe_parse_eq_ref
#print axioms Amoco.Pe.Props.pe_ctor_total
#print axioms Amoco.Pe.Props.pe_sections_bounded
#print axioms Amoco.Pe.Props.pe_magic_disjoint
#print axioms Amoco.Pe.Props.pe_locate_sound
