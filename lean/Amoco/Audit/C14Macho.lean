import Amoco.Props.C14Macho
open Amoco.Macho
#print axioms macho_parse_eq_ref
#print axioms macho_walker_total
#print axioms macho_offsets_monotone
#print axioms macho_cmds_disjoint
#print axioms macho_cmds_disjoint_obj
#print axioms macho_magic_disjoint
#print axioms machoInit_eq_ref
#print axioms walk_eq_ref
#print axioms walk_no_fuel
