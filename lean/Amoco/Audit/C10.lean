import Amoco.Props.C10
open Amoco.Hist.Props
#print axioms history_independence
#print axioms history_independence_clean
#print axioms history_independence_partial
#print axioms dirty_slot_is_observable
