import Amoco.Props.C03
open Amoco.Spec.Props
#print axioms buildspec_meaning
#print axioms decode_accepts_iff
#print axioms decode_accepts_bits
#print axioms decode_fields
#print axioms sliceBits_testBit
#print axioms decode_reads_prefix
#print axioms modrm_macro_r
#print axioms modrm_macro_digit
