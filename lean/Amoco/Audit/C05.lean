import Amoco.Props.C05
open Amoco.Dis.Props05
#print axioms consumes_prefix
#print axioms length_pos
#print axioms index_adds_no_tail_dependence
#print axioms fixed_spec_ignores_tail
#print axioms no_prefix_isa_determined
open Amoco.Leb128.Props05
#print axioms leb_operand_bounds
#print axioms leb_operand_ignores_tail
#print axioms leb_operand_truncation_rejected
#print axioms leb_operand_depends_on_consumed
