import Amoco.Props.C05
open Amoco.Dis.Props05
#print axioms consumes_prefix
#print axioms length_pos
#print axioms index_adds_no_tail_dependence
#print axioms fixed_spec_ignores_tail
#print axioms no_prefix_isa_determined
