import Amoco.Props.C06X86
open Amoco.X86Sem.Props
#print axioms x86_expected_correct
#print axioms x86_generated_eq_expected
#print axioms x86_generated_correct
#print axioms ref_add_cf_core
#print axioms ref_add_of_core
#print axioms ref_sub_cf_core
#print axioms ref_sub_of_core
