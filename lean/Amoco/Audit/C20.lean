import Amoco.Props.C20
open Amoco.Fmt.Props20
#print axioms constructors_raise_only_format_errors
#print axioms read_program_total
#print axioms read_program_elf_first
#print axioms magic_disjoint
#print axioms hex_alloc_bounded
#print axioms srec_alloc_bounded
#print axioms hex_decode_bounded
