import Amoco.Props.C06
open Amoco.Rv.Props
#print axioms decode_in_isa
#print axioms rv_expected_correct
#print axioms rv_expected_ecall
#print axioms rv_imm_I
#print axioms rv_imm_S
#print axioms rv_imm_B
#print axioms rv_imm_J
#print axioms rv_imm_U
#print axioms rv_imm_U32
#print axioms rv_fields
#print axioms rv_generated_eq_expected
