import Amoco.Props.C06
open Amoco.Rv.Props
#print axioms decode_in_isa
#print axioms rv_expected_correct
#print axioms rv_expected_ecall
#print axioms rv_imm_I
#print axioms rv_imm_S
#print axioms rv_imm_B
#print axioms rv_imm_J
#print axioms rv_imm_U
#print axioms rv_imm_U32
#print axioms rv_fields
#print axioms rv_generated_eq_expected
open Amoco.Flags.Props
#print axioms addWithCarry_result
#print axioms addWithCarry_carry
#print axioms addWithCarry_overflow
#print axioms subWithBorrow_carry
#print axioms subWithBorrow_overflow
#print axioms parity8_is_even_parity
#print axioms parity8_table_6996_is_odd_parity
#print axioms halfcarry_is_AF
#print axioms halfborrow_is_AF
#print axioms condition_codes_after_cmp
#print axioms r32_destination_zero_extends
