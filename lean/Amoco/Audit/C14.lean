import Amoco.Props.C14
open Amoco.Fmt.Props
#print axioms hex_roundtrip
#print axioms hex_bad_checksum_rejected
#print axioms srec_roundtrip
#print axioms srec_bad_checksum_rejected
#print axioms hex_address_composition
#print axioms generated_eq_model
#print axioms elf_layouts
#print axioms unpack_reads_layout
#print axioms elf_parse_eq_ref_partial
#print axioms elf_object_eq_ref_partial
#print axioms elf_symtab_entries
#print axioms elf_getinfo_follows_mapping
