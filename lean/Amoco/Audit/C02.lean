import Amoco.Props.C02
open Amoco.Mapper.Props
#print axioms block_map_sound_regs
#print axioms block_map_sound
#print axioms block_map_sound_mem_concrete
#print axioms block_map_sound_noalias
#print axioms rcompose_assoc_eval
