import Amoco.Props.C08
open Amoco.Memory.Props
