import Amoco.Props.C15
open Amoco.Loader.Props
#print axioms page_arith
#print axioms page_pow2
#print axioms congruent_seekable
#print axioms congruent_pow2
#print axioms loadsegment_bytes
#print axioms elf_loads
#print axioms elf_image_last_write
#print axioms later_writes_miss
#print axioms own_write
#print axioms later_segment_write
#print axioms elf_image
#print axioms elf_slots
#print axioms fetch_window
#print axioms elf_fetch
#print axioms loader_image
#print axioms block_present
#print axioms pe_section_bytes
#print axioms macho_segment_bytes
#print axioms relocate_image
#print axioms joinRaw_prefix
#print axioms fetch_mapped
