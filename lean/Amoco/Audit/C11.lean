import Amoco.Props.C11
open Amoco.Dis.Props11
#print axioms pending_none_after_call
#print axioms call_history_independent
#print axioms call_bytes_prefix
#print axioms no_prefix_leak
#print axioms original_code_leaks
#print axioms repaired_code_does_not
