import Amoco.Props.C19
open Amoco.Merge.Props
#print axioms vecSimplify_covers
#print axioms merge_covers
#print axioms merge_entry_covers
#print axioms merge_keys
