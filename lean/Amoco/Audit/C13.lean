import Amoco.Props.C13
open Amoco.Value.Props
#print axioms operand_preserved
#print axioms history_preserved
#print axioms unsound_rewrite_is_visible
#print axioms memory_maps_are_values
#print axioms operand_after_simplify
