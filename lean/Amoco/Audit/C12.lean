import Amoco.Props.C12
open Amoco.C12
#print axioms width_construct
#print axioms width_oper
#print axioms width_neg
#print axioms width_not
#print axioms width_simplify
#print axioms width_eval
#print axioms width_slice
#print axioms width_compose
#print axioms width_extend
#print axioms width_tst
#print axioms compWF_of_WF
#print axioms compWF_setitem
#print axioms compWF_restruct
#print axioms compWF_sound
