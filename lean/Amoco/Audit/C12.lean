import Amoco.Props.C12
#print axioms Amoco.C12.placeholder
