import Amoco.Props.C04
open Amoco.Dis.Props
#print axioms lookup_eq_scan
#print axioms accept_in_key_le
#print axioms accept_in_key_be
#print axioms index_hides_nothing
#print axioms setup_checks
#print axioms lookup_setup_eq_scan
