#!/bin/sh
# MANIFEST.setup_cmd — build the Lean models, theorems and the compiled model driver, offline.
cd "$(dirname "$0")/lean" || exit 2
lake build Amoco Generated amoco_driver 2>&1 | tail -5
test -x .lake/build/bin/amoco_driver || { echo "driver not built"; exit 1; }
echo setup-ok
