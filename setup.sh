#!/bin/sh
# MANIFEST.setup_cmd — build the Lean models, theorems and the compiled model drivers, offline.
# Every check (re)builds what it needs itself; this warms the build so that the checks are fast.
cd "$(dirname "$0")" || exit 2
IDS=$(python3 -c "import json;print(' '.join(c['property_id'] for c in json.load(open('MANIFEST.json'))['checks']))")
cd lean || exit 2
PROPS=""
for i in $IDS; do test -f Amoco/Props/$i.lean && PROPS="$PROPS Amoco.Props.$i"; done
# property modules that extend a claimed property (C01Ext, C06X86, C14Pe, C14Macho ...): built here so that the checks start warm
for f in Amoco/Props/C??[A-Za-z]*.lean; do
  test -f "$f" || continue
  b=$(basename "$f" .lean); id=$(echo "$b" | cut -c1-3)
  case " $IDS " in *" $id "*) PROPS="$PROPS Amoco.Props.$b";; esac
done
lake build $PROPS amoco_driver 2>&1 | tail -5 || exit 1
test -x .lake/build/bin/amoco_driver || { echo "driver not built"; exit 1; }
# the per-core drivers: built one by one, a core still under construction must not block the others
for e in $(grep '^name = "drv_' lakefile.toml | sed 's/name = "\(.*\)".*/\1/'); do
  lake build $e >/dev/null 2>&1 && echo "built $e" || echo "NOT built: $e"
done
echo setup-ok
