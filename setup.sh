#!/bin/sh
# MANIFEST.setup_cmd — build the Lean models, theorems and the compiled model drivers, offline.
cd "$(dirname "$0")/lean" || exit 2
PROPS=$(ls Amoco/Props/*.lean 2>/dev/null | sed 's/\.lean$//; s#/#.#g')
EXES=$(grep '^name = "' lakefile.toml | sed 's/name = "\(.*\)".*/\1/' | grep -E '^(amoco_driver|drv_)')
lake build $PROPS $EXES 2>&1 | tail -15
for e in $EXES; do test -x .lake/build/bin/$e || { echo "driver $e not built"; exit 1; }; done
echo setup-ok
